#!/bin/sh
# nothing to build: verify the interpreter, the offline dependencies and that the library is imported from /repo
cd "$(dirname "$0")" || exit 2
export PYTHONDONTWRITEBYTECODE=1
/venv/bin/python - <<'PY'
import sys
sys.path.insert(0, ".")
from sfsim import env
sf = env.import_sf()
import numpy, networkx, sympy, thewalrus, scipy
print("sfsim setup ok: python", sys.version.split()[0], "strawberryfields", sf.__version__, "from", sf.__file__)
PY
