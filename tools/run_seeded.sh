#!/bin/sh
# tools/run_seeded.sh [ids...] - regression of detection power: apply every kept breaking change under seeded/ to /repo, run the quick check of its
# property (FULL=1: the complete quick run, plus the second check named in meta.json's caught_by; default: SFSIM_REGRESSION=1 = same seeds in the same
# order but stop at the first violating batch and minimise for 3 s only), expect exit 1 with a VIOLATION line, restore /repo.  Results -> selftest/seeded_results.json
cd "$(dirname "$0")/.." || exit 2
test -z "$(git -C /repo status --short)" || { echo "/repo not clean"; exit 2; }
mkdir -p selftest
OUT=selftest/seeded_results.txt; : > $OUT
LIST="$@"; [ -z "$LIST" ] && LIST=$(ls -d seeded/*/ | xargs -n1 basename)
for id in $LIST; do
  d=seeded/$id
  pf="$PWD/$d/patch.diff"; [ -f "$PWD/$d/patch_rebased.diff" ] && pf="$PWD/$d/patch_rebased.diff"
  if ! git -C /repo apply --check "$pf" 2>/dev/null; then echo "$id STALE patch no longer applies to /repo HEAD" | tee -a $OUT; continue; fi
  git -C /repo apply "$pf"
  checks=$(/venv/bin/python -c "
import json,re,sys
m=json.load(open('$d/meta.json'))
ids=[]
for c in m['caught_by']:
    mm=re.match(r'(C\d+)',c)
    if mm and mm.group(1) not in ids: ids.append(mm.group(1))
print(' '.join(ids[:2] if '$FULL' == '1' else ids[:1]))")
  res=""
  for P in $checks; do
    if [ "$FULL" = "1" ]; then ./check $P --tier quick > /tmp/seeded_$P.log 2>&1; rc=$?
    else SFSIM_REGRESSION=1 ./check $P --tier quick > /tmp/seeded_$P.log 2>&1; rc=$?; fi
    v=$(grep -c '^VIOLATION' /tmp/seeded_$P.log)
    first=$(grep -m1 '^  oracle=' /tmp/seeded_$P.log | sed -E 's/^  oracle=([^ ]+) observable=(.*) detail=.*/\1\/\2/' | tr ' ' '_' | cut -c1-90)
    res="$res $P:exit$rc:violations$v:$first"
  done
  git -C /repo checkout -q -- .
  echo "$id$res" | tee -a $OUT
done
test -z "$(git -C /repo status --short)" && echo "/repo restored"
