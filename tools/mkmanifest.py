#!/venv/bin/python
"""writes /verif/MANIFEST.json from the table below (single source of truth for what is claimed)"""
import json
import os

HERE = os.path.dirname(os.path.dirname(os.path.abspath(__file__)))

CLAIMED = {
    "C03": dict(
        category="exploration",
        text="Seeded search over sessions that hold a program and its optimised copies (optimize(), compile(optimize=True)), which share RegRefs and "
             "operation objects, run in any order under the same simulator-owned outcome tape; oracle: same final state/samples for original and "
             "optimised copy, user program fingerprint unchanged; free parameters may have been bound (with exactly cancelling values) before the optimisation and are re-bound after. Exploration is the right level: the failures of interest need a particular "
             "sharing/run-order/feed-forward history; the merge algebra itself is sampled, not exhausted.",
        design_ref="DESIGN.md section 4 (C03)", technique="deterministic simulation: seeded session histories over shared program objects with injected measurement outcomes",
        note="Trusts: the backends' gate physics only differentially (original vs optimised on the same backend); tolerance 1e-8 (Fock: truncation-derived)."),
    "C04": dict(
        category="exploration",
        text="The simulator owns the topological sorter: networkx's two sort routines are replaced by a seeded scheduler that picks every 'next ready "
             "command' (native order, random, adversarial far/near, and all choice sequences when the walk is small). Every reordering function is "
             "checked under each schedule against a dependency relation computed from the circuit spec, also after an earlier run left values in the registers, after foreign circuits went through the same functions, and with one compiler object kept for all compilations. Exploration: seeded sampling of circuits x "
             "schedules, exhaustive over schedules only for small DAGs.",
        design_ref="DESIGN.md section 4 (C04)", technique="deterministic simulation: seeded scheduler behind the topological-sort seam (schedule exploration)",
        note="Trusts: the SortSeam only returns orders the sorters' contract allows; reference relation = shared register mode or measured-parameter link."),
    "C06": dict(
        category="exploration",
        text="The simulator owns the RNG seam under every measurement: it inspects the distribution the backend hands to numpy.random / thewalrus "
             "(Born rule check against an independent calculation from the backend's own pre-call snapshot), then chooses the outcome (typical, +-6 sigma, "
             "forced rejections in the bosonic sampler) and checks the post-measurement state against the reference conditional state for that outcome, "
             "vacuum reset, cross-backend agreement under post-selection and sample collation with unique injected outcomes; measurement requests the library refuses (several shots, post-selection with shots from the call or stored in the program) are fault points after which the state must be unchanged.",
        design_ref="DESIGN.md section 4 (C06)", technique="deterministic simulation: injected measurement outcomes at the RNG seam, per-call Born/conditioning oracles",
        note="Trusts: my ~200-line NumPy reference for Gaussian/Fock conditioning; Fock homodyne conditioning exact only for product states or outcome 0 (method inherent)."),
    "C08": dict(
        category="exploration",
        text="Seeded histories of New/Del/use/measure over 1-4 program segments on one engine, with injected invalid operations (deleted/unknown modes at "
             "front end, engine and raw backend level), reset and crash+recover, checked after every run against a reference register model using the "
             "unique-coherent-amplitude idiom (any mix-up of rows, axes or labels shows as a wrong amplitude under a wrong name); on entangled / non-Gaussian states the history is compared with its twin without register operations (every mode present throughout) and creating or deleting a mode must leave all other modes untouched.",
        design_ref="DESIGN.md section 4 (C08)", technique="deterministic simulation: seeded operation histories with injected invalid ops and crashes vs a reference register model",
        note="Trusts: the reference model's one-line coherent-state update rules; Fock runs at |alpha|<=0.45, cutoff 6-7, tolerance 3e-3."),
    "C09": dict(
        category="fault_enumeration",
        text="Sessions of 1-3 program segments executed under all call patterns (one list, one call per segment, concatenated, re-run on a fresh engine, "
             "alternating on two engines, after reset with a junk pre-history) with a simulator-owned outcome tape; fault batches inject an exception "
             "(RuntimeError / KeyboardInterrupt / MemoryError) before or after backend call k - k sampled, and in the sweep batches every k of the history - "
             "then recover (reset, reset with new backend options, new engine, or - for a crash inside the first segment - a plain re-run on the same engine) and require fingerprints of user programs (every attribute of every operation object) and of the options dictionary unchanged and the next run equal to a fresh engine's.",
        design_ref="DESIGN.md section 4 (C09)", technique="deterministic simulation with fault injection: crash-point enumeration at backend-call boundaries over seeded session histories",
        note="Trusts: crash model = exception at a backend API boundary; documented mutable parts (RegRef.val, locked, bound parameter values) excluded from fingerprints."),
    "C10": dict(
        category="exploration",
        text="Programs with symbolic parameter expressions are run with every measurement outcome fixed in advance by the simulator, so that a numeric twin "
             "(same spec, numbers from an independent 30-line evaluator) exists before anything runs; symbolic and twin must agree through every compile "
             "target, optimisation and multi-segment use, measured parameters must track the latest outcome of their own program's mode, and misuse must "
             "raise ParameterError - all unchanged by foreign programs in the same process that reuse the same mode indices / parameter names. Exact special values (parameters bound to 0.0, outcomes of 0.0), photon counts in array-valued parameters and complex heterodyne outcomes (re/im/Abs/arg/conjugate) have their own batches.",
        design_ref="DESIGN.md section 4 (C10)", technique="deterministic simulation: injected outcome tape + numeric twin, histories incl. foreign activity in the same process",
        note="Trusts: my expression evaluator; states compared at 1e-7."),
    "C13": dict(
        category="exploration",
        text="TDM programs are driven through seeded histories of unroll/space_unroll/roll/run; under the RNG seam the (mean, variance) the library asks "
             "for at pulse k must equal the sequential conditioning of an independently built fresh-mode-per-pulse reference circuit on the injected "
             "outcomes (exact statement of 'same joint state of all measured pulses'); sample layout, roll-back restoration and history-independence "
             "of results are checked on the same histories, optionally after an interrupted run of the same program (crash at a backend call) that must leave it as it was; crop=True is checked on loop-structured programs against an independently computed number of leading vacuum pulses.",
        design_ref="DESIGN.md section 4 (C13)", technique="deterministic simulation: call-history search over the TDM cache state machine with injected homodyne outcomes",
        note="Trusts: my 60-line loop model and the Gaussian backend on plain programs (a code path disjoint from tdm/program.py)."),
    "C19": dict(
        category="exploration",
        text="The RNG seam under the randomised clique/subgraph/similarity helpers: the scheduler walks every tie-break the routine could see (all draw "
             "sequences when <= 500, seeded sample beyond) and the set of results must equal the set the documented rule allows (brute-force model); "
             "plus structural checks (cliques, sizes, densities) and seam-observed probability vectors against exact integer combinatorics.",
        design_ref="DESIGN.md section 4 (C19)", technique="deterministic simulation: enumeration of RNG tie-break sequences vs reachable-set reference model",
        note="Claimed for the randomised routines only; pure enumeration functions are exercised only where they reach the RNG seam."),
}

NA = {
    "C01": "pure function of (program, backend options): no history, unowned choice or interruption can change its verdict; sampling its inputs would be property-based differential testing under another name",
    "C02": "pure function: _decompose builds fresh operations from its arguments on every call; no state, draw or fault is involved",
    "C05": "per-call linear algebra on explicit arguments; the clauses that do meet a draw or a history (measurement update, deletion) are decided under C06 and C08",
    "C07": "invariant of pure update formulas; it meets the schedule only through measurement outcomes, which C06's conditioning oracle pins to the exact reference state",
    "C11": "pure functions of the command list; their tie-breaks are deterministic for a given input, so alternative linearisations are executions the deployed code cannot show (unlike C04, whose statement quantifies over them)",
    "C12": "pure function of (program, device spec); the only history-dependent element (compiler layouts cached as class attributes) can only turn success into a CircuitError, which the property allows",
    "C14": "pure text codec; the only I/O is one unguarded read/write for which the library promises nothing under faults, so there is no fault behaviour to hold it to",
    "C15": "function of (hbar, program) at fixed hbar per run; the property does not quantify over changing hbar mid-history",
    "C16": "pure methods of an immutable state object",
    "C17": "pure numerical routines on explicit matrices",
    "C18": "pure predicate on two command lists; no state, draw or fault",
    "C20": "closed-form numerics; the sampling-based variants are explicitly outside the statement",
}


def main():
    built = [pid for pid in sorted(CLAIMED) if os.path.exists(os.path.join(HERE, "sfsim", "props", pid.lower() + ".py"))]
    checks = []
    for pid in built:
        c = CLAIMED[pid]
        checks.append({
            "property_id": pid,
            "quick_cmd": "./check %s --tier quick" % pid,
            "thorough_cmd": "./check %s --tier thorough" % pid,
            "evidence_file": "evidence/%s.json" % pid,
            "replay_cmd_template": "./check %s --replay {path}" % pid,
            "engine": "sfsim",
            "level_claimed": {"category": c["category"], "text": c["text"], "design_ref": c["design_ref"]},
            "level_note": c["note"],
            "technique": c["technique"],
        })
    na = [{"property_id": k, "reason": v} for k, v in sorted(NA.items())]
    for pid in sorted(CLAIMED):
        if pid not in built:
            na.append({"property_id": pid, "reason": "check not built yet in this commit (will be claimed; see DESIGN.md section 4)"})
    man = {
        "version": 1,
        "setup_cmd": "./setup.sh",
        "hooks": {
            "guard": "SF_VERIF_SIM",
            "enable": "no source hook exists: every seam is installed from outside (module-attribute patching of numpy.random / networkx sorters / "
                      "strawberryfields.backends.local_backends, backend subclassing). The checks import strawberryfields from /repo's working tree "
                      "(sys.path) on every run, so there is nothing to build. SF_VERIF_SIM=1 is set by the checks and reserved for future hooks.",
            "baseline_off_cmd": "cd /repo && /venv/bin/python -m pytest -ra -q -p no:cacheprovider --timeout=900 --continue-on-collection-errors",
            "source_commits": [],
            "add_only": True,
        },
        "engines": [{
            "name": "sfsim", "path": "sfsim/",
            "serves_properties": built,
            "kind_free_text": "custom deterministic simulator (pure Python): scripts-as-data, one forked child per simulated run from a clean warmed parent, "
                              "seams by monkeypatch/subclass (RNG, topological sorter, backend API boundary), seeded generation, ddmin minimiser, replay files",
        }],
        "checks": checks,
        "not_applicable": na,
        "notes": "Technique studied: deterministic simulation with fault injection. See DESIGN.md. Known findings: known_findings.json. "
                 "Exit codes: 0 held, 1 VIOLATION, 2 harness error (never a pass).",
    }
    with open(os.path.join(HERE, "MANIFEST.json"), "w") as f:
        json.dump(man, f, indent=1)
    print("MANIFEST.json: claimed", built, "n/a", len(na))


if __name__ == "__main__":
    main()
