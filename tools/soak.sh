#!/bin/sh
# tools/soak.sh [budget_s] [ids...] - thorough tier of every check (time-boxed), one line per check
B=${1:-600}; shift
IDS="$@"; [ -z "$IDS" ] && IDS="C03 C10 C06 C13 C09 C08 C04 C19"
for P in $IDS; do
  printf "%s thorough (budget %ss): " $P $B
  VERIF_BUDGET_S=$B ./check $P --tier thorough 2>&1 | grep -E "^VIOLATION|^OK|HARNESS|oracle=|runs=[0-9]+ steps" | head -4 | cut -c1-300 | tr '\n' ' '
  echo
done
