#!/bin/sh
# tools/try_mutant.sh <worktree-id> <A|B> <property ids to check...>
# 1. confirm the agent's demo: passes on the clean worktree, fails with the patch
# 2. apply the patch to /repo, run the quick checks, undo
WT=/tmp/wt/$1; M=$2; shift 2
D=$WT/_mutant/$M
cd $WT || exit 2
git checkout -q -- . ; git status --short | grep -v _mutant
echo "== demo on clean worktree"; OMP_NUM_THREADS=1 timeout 600 /venv/bin/python $D/demo.py > /tmp/demo_clean.log 2>&1; echo "exit $?"; tail -2 /tmp/demo_clean.log
git apply $D/patch.diff || { echo "PATCH DOES NOT APPLY to worktree"; exit 2; }
echo "== demo with patch"; OMP_NUM_THREADS=1 timeout 600 /venv/bin/python $D/demo.py > /tmp/demo_mut.log 2>&1; echo "exit $?"; tail -3 /tmp/demo_mut.log
git checkout -q -- .
cd /repo || exit 2
test -z "$(git status --short)" || { echo "/repo not clean"; exit 2; }
git apply $D/patch.diff || { echo "PATCH DOES NOT APPLY to /repo"; exit 2; }
for P in "$@"; do
  echo "== ./check $P --tier quick (mutant $WT $M)"
  (cd /verif && ./check $P --tier quick > /tmp/check_$P.log 2>&1; echo "exit $?"; grep -E "^VIOLATION|oracle=|KNOWN|HARNESS|^OK" /tmp/check_$P.log | cut -c1-420 | head -8)
done
git checkout -q -- .
test -z "$(git status --short)" && echo "/repo restored"
