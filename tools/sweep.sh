#!/bin/sh
# tools/sweep.sh "<seeds>" [tier]  - run every check under several VERIF_SEED values, one line per (check, seed)
TIER=${2:-quick}
for sd in $1; do for P in C03 C04 C06 C08 C09 C10 C13 C19; do
  printf "%s seed %s: " $P $sd
  VERIF_SEED=$sd ./check $P --tier $TIER 2>&1 | grep -E "^VIOLATION|^OK|HARNESS|oracle=" | head -3 | cut -c1-300 | tr '\n' ' '
  echo
done; done
