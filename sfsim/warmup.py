"""JIT warm-up of the numeric kernels in the (clean) parent process.  Only numbers are used here: no symbolic
parameter, compiler layout or engine survives, so forked children start with pristine library state but compiled
kernels.  numba specialises on argument *types*, so every kernel is called with each float/int combination the
library can produce (e.g. Dgate(0.3) passes phi=0.0, a decomposition may pass an int 0)."""
import itertools
import time


def warm_fock(cutoffs=(4, 5)):
    import os
    if os.environ.get("NUMBA_DISABLE_JIT") == "1":
        return 0.0
    from thewalrus import fock_gradients as fg

    t = time.time()
    c = cutoffs[0]
    for f in (fg.displacement, fg.squeezing, fg.two_mode_squeezing, fg.beamsplitter, fg.mzgate):
        for a, b in itertools.product((0.1, 1), (0.2, 0)):
            try:
                f(a, b, c)
            except Exception:  # noqa  (a type combination the kernel does not accept is simply not warmed)
                pass
    from strawberryfields.backends.fockbackend import ops as fops
    for n in cutoffs:
        fops.hermiteVals.__wrapped__(6.0, 100000, 1.0, n) if hasattr(fops.hermiteVals, "__wrapped__") else None
    return time.time() - t


def warm_engines(sf, cutoffs=(4, 5), max_modes=3):
    """numeric programs touching every op family the generators use, on every register size and representation
    (the numba kernels specialise on the rank of the state tensor: n for pure, 2n for mixed states)"""
    from strawberryfields import ops
    import os
    if os.environ.get("NUMBA_DISABLE_JIT") == "1":
        max_modes = 2

    for n in range(1, max_modes + 1):
        for pure in (True, False):
            p = sf.Program(n)
            with p.context as q:
                a, b = q[0], q[n - 1]
                ops.Fock(1) | a
                ops.Coherent(0.1, 0.2) | b
                ops.Squeezed(0.1, 0.2) | b
                ops.DisplacedSqueezed(0.1, 0.2, 0.1, 0.3) | b
                ops.Sgate(0.1, 0.2) | b
                ops.Dgate(0.1, 0.3) | a
                ops.Rgate(0.3) | a
                ops.Xgate(0.1) | a
                ops.Zgate(0.1) | a
                ops.Pgate(0.1) | b
                ops.Fourier | b
                ops.Kgate(0.3) | a
                ops.Vgate(0.05) | a
                if n > 1:
                    for (x, y) in ((a, b), (b, a)):
                        ops.BSgate(0.3, 0.2) | (x, y)
                        ops.S2gate(0.1, 0.1) | (x, y)
                        ops.CKgate(0.1) | (x, y)
                        ops.CXgate(0.1) | (x, y)
                        ops.CZgate(0.1) | (x, y)
                        ops.MZgate(0.1, 0.2) | (x, y)
                if not pure:
                    ops.LossChannel(0.8) | b
                ops.MeasureFock() | b
                ops.Coherent(0.1, 0.2) | b
                ops.MeasureHomodyne(0.3) | a
            c = cutoffs[(n + int(pure)) % len(cutoffs)]
            sf.Engine("fock", backend_options={"cutoff_dim": c, "pure": pure}).run(p)
    warm_phase_space(sf)


def warm_phase_space(sf):
    from strawberryfields import ops

    p2 = sf.Program(2)
    with p2.context as q:
        ops.Sgate(0.1, 0.2) | q[1]
        ops.BSgate(0.3, 0.2) | (q[0], q[1])
        ops.LossChannel(0.8) | q[1]
        ops.ThermalLossChannel(0.8, 0.2) | q[1]
        ops.MeasureHeterodyne() | q[1]
        ops.MeasureX | q[0]
    sf.Engine("gaussian").run(p2)
    sf.Engine("bosonic").run(p2)
    p3 = sf.Program(1)
    with p3.context as q:
        ops.Catstate(0.5, 0.3) | q[0]
        ops.MeasureX | q[0]
    sf.Engine("bosonic").run(p3)


def clear_symbolic_caches():
    import sympy.core.cache

    sympy.core.cache.clear_cache()
