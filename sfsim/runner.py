"""Batch runner: fork-per-run from a clean warmed parent, aggregation, violation confirmation,
minimisation, replay files, known findings, evidence.

Process model (DESIGN 3.3 "ProcessSeam")

    main (imports the library, JIT-warms numeric kernels, never builds symbolic state)
      +- worker 0..W-1   (forked from main before any job ran; single threaded; never run jobs)
           +- child per job (forked from the worker; runs generate+execute; exits)

so whatever a run finds in process-global caches was put there by that run's own script.
"""
import faulthandler
import json
import os
import resource
import select
import signal
import sys
import time
import traceback
from collections import Counter

from . import env
from .world import World, Violation, HarnessError, canon

NWORKERS = int(os.environ.get("SFSIM_WORKERS", "16"))
CHILD_AS_LIMIT = int(os.environ.get("SFSIM_AS_LIMIT_GB", "10")) << 30


# ------------------------------------------------------------------------------------------------
# one job in one forked child
# ------------------------------------------------------------------------------------------------
def _child_main(prop, job, wfd, timeout):
    try:
        faulthandler.enable()
        faulthandler.dump_traceback_later(max(1, timeout - 2), exit=False)
        try:
            resource.setrlimit(resource.RLIMIT_AS, (CHILD_AS_LIMIT, CHILD_AS_LIMIT))
        except Exception:
            pass
        out = run_job_inproc(prop, job)
    except BaseException:  # noqa
        out = {"job": {k: v for k, v in job.items() if k != "script"}, "error": traceback.format_exc()}
    try:
        data = json.dumps(out).encode()
    except Exception:
        data = json.dumps({"job": {"seed": job.get("seed"), "batch": job.get("batch")},
                           "error": "unserialisable result: " + traceback.format_exc()}).encode()
    off = 0
    try:
        while off < len(data):
            off += os.write(wfd, data[off:off + 65536])
        os.close(wfd)
    except OSError:  # the worker was told to stop; nobody is listening any more
        pass
    os._exit(0)


def run_job_inproc(prop, job):
    """generate (unless a script is given) and execute one script; returns the JSON-able result"""
    seed = job["seed"]
    w = World(seed, prop.ID)
    script = job.get("script")
    if script is None:
        script = prop.generate(seed, job["tier"], job["batch"])
    w.log("script", script=script)
    try:
        prop.execute(script, w)
    except Violation as v:
        w.violation(v.oracle, v.observable, v.detail)
    except (HarnessError, KeyboardInterrupt, MemoryError):
        raise
    except Exception as ex:  # noqa
        # every generated workload is valid by construction (the unchanged tree raises nothing here): an exception that
        # originates in library code and that no oracle anticipated is a violation of the property under test, not a harness error
        tb = traceback.extract_tb(ex.__traceback__)
        lib = [f for f in tb if "/strawberryfields/" in f.filename and "/verif/" not in f.filename]
        if not lib or "/verif/" in tb[-1].filename:
            raise
        last = lib[-1]
        w.violation("no-unexpected-exception", "%s in %s" % (type(ex).__name__, last.name),
                    {"exc": type(ex).__name__, "msg": str(ex)[:300], "where": "%s:%d" % (last.filename, last.lineno)})
    res = w.result()
    res["job"] = {"seed": seed, "batch": job["batch"], "tier": job["tier"]}
    res["size"] = len(json.dumps(script))
    if res["violations"] or job.get("want_script"):
        res["script"] = script
    return res


def run_forked(prop, job, timeout=120):
    """run one job in a forked child of the *current* process; returns result dict"""
    r, wfd = os.pipe()
    pid = os.fork()
    if pid == 0:
        os.close(r)
        try:
            signal.signal(signal.SIGTERM, signal.SIG_DFL)
            signal.signal(signal.SIGINT, signal.SIG_DFL)
        except Exception:
            pass
        _child_main(prop, job, wfd, timeout)
    os.close(wfd)
    chunks = []
    deadline = time.time() + timeout
    timed_out = False
    while True:
        left = deadline - time.time()
        if left <= 0:
            timed_out = True
            break
        rl, _, _ = select.select([r], [], [], min(left, 5.0))
        if rl:
            b = os.read(r, 1 << 20)
            if not b:
                break
            chunks.append(b)
    os.close(r)
    if timed_out:
        try:
            os.kill(pid, signal.SIGKILL)
        except ProcessLookupError:
            pass
    _, status = os.waitpid(pid, 0)
    jobinfo = {k: v for k, v in job.items() if k != "script"}
    if timed_out:
        return {"job": jobinfo, "error": "TIMEOUT after %ss" % timeout, "timeout": True}
    data = b"".join(chunks)
    if not data:
        return {"job": jobinfo, "error": "child died, wait status %d" % status}
    try:
        return json.loads(data)
    except Exception:
        return {"job": jobinfo, "error": "bad child output (%d bytes), status %d" % (len(data), status)}


# ------------------------------------------------------------------------------------------------
# workers
# ------------------------------------------------------------------------------------------------
def _worker_main(prop, jobs, wfd, deadline, job_timeout):
    signal.signal(signal.SIGTERM, lambda *a: os._exit(0))
    try:
        out = os.fdopen(wfd, "w")
        for job in jobs:
            if time.time() > deadline:
                break
            res = run_forked(prop, job, job_timeout)
            out.write(json.dumps(res) + "\n")
            out.flush()
        out.close()
    except BaseException:  # noqa
        pass
    os._exit(0)


def run_batch(prop, jobs, budget_s, job_timeout=120, on_result=None, stop_when=None, nworkers=None):
    """run jobs on W workers (static striding); calls on_result(res) in the main process."""
    W = max(1, min(nworkers or NWORKERS, len(jobs)))
    deadline = time.time() + budget_s
    pipes = {}
    pids = []
    for i in range(W):
        r, wfd = os.pipe()
        pid = os.fork()
        if pid == 0:
            os.close(r)
            for rr in pipes:
                os.close(rr)
            _worker_main(prop, jobs[i::W], wfd, deadline, job_timeout)
        os.close(wfd)
        pipes[r] = b""
        pids.append(pid)
    results = 0
    stopped = False
    while pipes:
        rl, _, _ = select.select(list(pipes), [], [], 5.0)
        for r in rl:
            b = os.read(r, 1 << 20)
            if not b:
                os.close(r)
                del pipes[r]
                continue
            buf = pipes[r] + b
            *lines, rest = buf.split(b"\n")
            pipes[r] = rest
            for ln in lines:
                if ln.strip():
                    res = json.loads(ln)
                    results += 1
                    if on_result:
                        on_result(res)
        if not stopped and stop_when and stop_when():
            stopped = True
            for pid in pids:
                try:
                    os.kill(pid, signal.SIGTERM)
                except ProcessLookupError:
                    pass
        if time.time() > deadline + job_timeout + 30 and not stopped:
            stopped = True
            for pid in pids:
                try:
                    os.kill(pid, signal.SIGKILL)
                except ProcessLookupError:
                    pass
    for pid in pids:
        try:
            os.waitpid(pid, 0)
        except ChildProcessError:
            pass
    return results


# ------------------------------------------------------------------------------------------------
# shrinking helpers (scripts are plain JSON; candidates are produced by the property module)
# ------------------------------------------------------------------------------------------------
def ddmin_list(lst, min_len=0):
    """candidates for a list: drop halves, quarters, ..., single elements (largest chunks first)"""
    n = len(lst)
    chunk = n // 2
    seen = set()
    while chunk >= 1:
        for start in range(0, n, chunk):
            cand = lst[:start] + lst[start + chunk:]
            key = json.dumps(cand, sort_keys=True)
            if len(cand) >= min_len and len(cand) < n and key not in seen:
                seen.add(key)
                yield cand
        chunk //= 2


def vclass(v):
    return (v["oracle"], v["observable"])


def minimise(prop, script, target_class, tier, budget_s=60, job_timeout=60, log=None):
    """greedy shrink: keep a candidate iff it still fails with the same violation class"""
    t_end = time.time() + budget_s
    cur = script
    tried = 0
    improved = True
    while improved and time.time() < t_end:
        improved = False
        for cand in prop.shrink(cur):
            if time.time() > t_end:
                break
            tried += 1
            res = run_forked(prop, {"seed": 0, "batch": "replay", "tier": tier, "script": cand}, job_timeout)
            if res.get("error"):
                continue
            if any(vclass(v) == target_class for v in res.get("violations", [])):
                cur = cand
                improved = True
                break
    if log:
        log("minimised: %d candidates tried, size %d -> %d" % (tried, len(json.dumps(script)), len(json.dumps(cur))))
    return cur


# ------------------------------------------------------------------------------------------------
# known findings
# ------------------------------------------------------------------------------------------------
def load_known(prop_id):
    path = os.path.join(env.VERIF, "known_findings.json")
    if not os.path.exists(path):
        return []
    with open(path) as f:
        data = json.load(f)
    return [k for k in data.get("findings", []) if k.get("property") == prop_id and k.get("status", "open") == "open"]


def matches_known(kf, violation, features):
    m = kf.get("match", {})
    if m.get("oracle") and m["oracle"] != violation["oracle"]:
        return False
    if m.get("observable") and m["observable"] != violation["observable"]:
        return False
    need = set(m.get("features_all", []))
    return need <= set(features)


# ------------------------------------------------------------------------------------------------
# the check driver
# ------------------------------------------------------------------------------------------------
class Check:
    def __init__(self, prop, tier, seed):
        self.prop, self.tier, self.seed = prop, tier, seed
        self.t0 = time.time()
        self.agg = {
            "runs": 0, "errors": [], "faults": Counter(), "seams": Counter(), "probes": Counter(),
            "digests": set(), "nontrivial": set(), "states": set(), "steps": 0, "events": 0,
            "per_batch": {}, "samples": [], "viol": [],
        }
        self.lines = []

    def say(self, s):
        print(s, flush=True)

    def _on_result(self, res):
        a = self.agg
        b = res.get("job", {}).get("batch", "?")
        pb = a["per_batch"].setdefault(b, {"runs": 0, "violating_runs": 0, "errors": 0, "steps": 0})
        if res.get("error"):
            pb["errors"] += 1
            a["errors"].append({"job": res.get("job"), "error": res["error"][-1500:]})
            return
        a["runs"] += 1
        pb["runs"] += 1
        pb["steps"] += res["steps"]
        a["steps"] += res["steps"]
        a["events"] += res["n_events"]
        a["faults"].update(res["faults"])
        a["seams"].update(res["seams"])
        a["probes"].update(res["probes"])
        a["digests"].add(res["digest"])
        a["nontrivial"].update(res["nontrivial"])
        a["states"].update(res["states"])
        if res.get("script") is not None and len(a["samples"]) < 4 and (not res["violations"] or len(a["samples"]) < 2):
            a["samples"].append({"seed": res["job"]["seed"], "batch": b, "script": res["script"], "violating": bool(res["violations"])})
        if res["violations"]:
            pb["violating_runs"] += 1
            a["viol"].append(res)

    def run(self):
        prop, tier = self.prop, self.tier
        self.say("sfsim check %s tier=%s VERIF_SEED=%d workers=%d" % (prop.ID, tier, self.seed, NWORKERS))
        t = time.time()
        prop.warm(tier)
        self.say("  warm-up %.1fs" % (time.time() - t))
        total_budget = float(os.environ.get("VERIF_BUDGET_S", prop.BUDGET[tier]))
        batches = prop.batches(tier)
        wsum = sum(b.get("weight", 1) for b in batches)
        for b in batches:
            budget = total_budget * b.get("weight", 1) / wsum
            n = b["runs"]
            base = self.seed * 1000003 + b.get("seed_offset", 0)
            jobs = [{"seed": base + i, "batch": b["name"], "tier": tier, "want_script": i < 2} for i in range(n)]
            t = time.time()

            def stop_when():
                if os.environ.get("SFSIM_REGRESSION") == "1" and self.agg["viol"]:
                    return True  # tools/run_seeded.sh: only the verdict is wanted; the same seeds in the same order as the full run
                classes = {vclass(v) for r in self.agg["viol"] for v in r["violations"]}
                return len(self.agg["viol"]) >= 40 or (len(classes) >= 6 and len(self.agg["viol"]) >= 12)

            run_batch(prop, jobs, budget, job_timeout=prop.JOB_TIMEOUT, on_result=self._on_result, stop_when=stop_when)
            pb = self.agg["per_batch"].get(b["name"], {"runs": 0})
            pb["wall_s"] = round(time.time() - t, 1)
            pb["requested"] = n
            self.say("  batch %-14s runs=%d/%d violating=%d errors=%d wall=%.1fs" % (
                b["name"], pb.get("runs", 0), n, pb.get("violating_runs", 0), pb.get("errors", 0), time.time() - t))
            if stop_when():
                self.say("  (stopping early: many violating runs)")
                break
        rc = self.finish()
        return rc

    # -- violations -> confirm, minimise, classify against known findings, replay files
    def handle_violations(self):
        prop, tier = self.prop, self.tier
        known = load_known(prop.ID)
        reported = []  # (kind, text)
        # group by class, smallest script first
        byclass = {}
        for res in self.agg["viol"]:
            for v in res["violations"]:
                byclass.setdefault(vclass(v), []).append(res)
        n_new = 0
        kf_hit = set()
        max_classes = 4 if tier == "quick" else 6
        fast = os.environ.get("SFSIM_REGRESSION") == "1"
        if fast:
            max_classes = 1
        for cls in sorted(byclass, key=lambda c: -len(byclass[c]))[:max_classes]:
            cands = sorted(byclass[cls], key=lambda r: r["size"])
            confirmed = None
            for res in cands[:3]:
                chk = run_forked(prop, {"seed": res["job"]["seed"], "batch": "replay", "tier": tier,
                                        "script": res["script"]}, prop.JOB_TIMEOUT)
                if not chk.get("error") and any(vclass(v) == cls for v in chk["violations"]):
                    confirmed = (res, chk)
                    break
            if confirmed is None:
                # The oracle fired in the original run but the same script does not fire again: the library's behaviour under this script is
                # not a function of the script (e.g. it depends on object addresses).  That is still a violation of the property - the run
                # that showed it is recorded - but it cannot be minimised; the replay file carries the original script and says so.
                res = cands[0]
                v = next(v for v in res["violations"] if vclass(v) == cls)
                n_new += 1
                os.makedirs(os.path.join(env.VERIF, "replays"), exist_ok=True)
                path = os.path.join(env.VERIF, "replays", "%s-%d-%d.json" % (prop.ID, res["job"]["seed"], n_new))
                with open(path, "w") as f:
                    json.dump({"property": prop.ID, "seed": res["job"]["seed"], "tier": tier, "batch": res["job"]["batch"], "violation": v,
                               "digest": res["digest"], "script": res["script"], "reproducible": False,
                               "note": "fired in %d of the explored runs of this class but not on re-execution of the same script: behaviour depends on "
                                       "something outside the script (address-dependent ordering?); replay may need several attempts" % len(byclass[cls])}, f, indent=1)
                self.say("VIOLATION property=%s replay=%s" % (prop.ID, path))
                self.say("  (not reproducible on re-execution: nondeterministic under the same script) oracle=%s observable=%s detail=%s" % (
                    v["oracle"], v["observable"], json.dumps(v["detail"])[:500]))
                continue
            res, chk = confirmed
            script = minimise(prop, res["script"], cls, tier, budget_s=prop.MINIMISE_S[tier] if not fast else 3,
                              job_timeout=prop.JOB_TIMEOUT, log=lambda s: self.say("  " + s))
            final = None
            flaky = False
            for attempt in range(4):
                f_ = run_forked(prop, {"seed": res["job"]["seed"], "batch": "replay", "tier": tier, "script": script}, prop.JOB_TIMEOUT)
                if not f_.get("error") and any(vclass(v) == cls for v in f_["violations"]):
                    final = f_
                    break
                flaky = True
            if final is None:
                # the minimised script fired during minimisation but not now: the behaviour is not a function of the script; keep the
                # confirmed (unminimised) execution
                script, final = res["script"], chk
            v = next(v for v in final["violations"] if vclass(v) == cls)
            if flaky:
                self.say("  (this violation does not fire on every execution of the same script: nondeterministic under replay)")
            feats = sorted(set(v.get("features", [])) | set(prop.features(script, v)))
            kf = next((k for k in known if matches_known(k, v, feats)), None)
            if kf is not None:
                kf_hit.add(kf["id"])
                continue
            n_new += 1
            os.makedirs(os.path.join(env.VERIF, "replays"), exist_ok=True)
            path = os.path.join(env.VERIF, "replays", "%s-%d-%d.json" % (prop.ID, res["job"]["seed"], n_new))
            with open(path, "w") as f:
                json.dump({"property": prop.ID, "seed": res["job"]["seed"], "tier": tier, "batch": res["job"]["batch"],
                           "violation": v, "features": feats, "digest": final["digest"], "script": script,
                           "original_script_size": res["size"], "n_runs_with_this_class": len(byclass[cls])}, f, indent=1)
            self.say("VIOLATION property=%s replay=%s" % (prop.ID, path))
            self.say("  oracle=%s observable=%s detail=%s" % (v["oracle"], v["observable"], json.dumps(v["detail"])[:600]))
        return n_new, kf_hit, known

    def run_known_probes(self, known, kf_hit):
        """replay every listed finding's probe; print KNOWN-FINDING while it still reproduces"""
        prop, tier = self.prop, self.tier
        out = []
        for kf in known:
            probe = kf.get("probe")
            reproduces = None
            if probe is not None:
                res = run_forked(prop, {"seed": 0, "batch": "known-probe", "tier": tier, "script": probe}, prop.JOB_TIMEOUT)
                if res.get("error"):
                    self.agg["errors"].append({"job": {"known": kf["id"]}, "error": res["error"][-800:]})
                    continue
                reproduces = False
                for v in res["violations"]:
                    feats = sorted(set(v.get("features", [])) | set(prop.features(probe, v)))
                    if matches_known(kf, v, feats):
                        reproduces = True
                    else:
                        # a probe must fail only in the listed way
                        self.agg["viol_probe_other"] = self.agg.get("viol_probe_other", []) + [(kf["id"], v, probe)]
            if reproduces or (reproduces is None and kf["id"] in kf_hit) or kf["id"] in kf_hit:
                self.say("KNOWN-FINDING: property=%s %s [%s]" % (prop.ID, kf["what"], kf["id"]))
                out.append({"id": kf["id"], "what": kf["what"], "reproduced_by_probe": bool(reproduces),
                            "met_in_search": kf["id"] in kf_hit, "avoid": kf.get("avoid")})
            else:
                self.say("  note: known finding %s no longer reproduces (probe passes)" % kf["id"])
                out.append({"id": kf["id"], "what": kf["what"], "reproduced_by_probe": False, "met_in_search": False,
                            "note": "probe no longer fails"})
        return out

    def finish(self):
        prop, tier, a = self.prop, self.tier, self.agg
        n_new, kf_hit, known = self.handle_violations()
        known_out = self.run_known_probes(known, kf_hit)
        for (kid, v, probe) in a.get("viol_probe_other", []):
            n_new += 1
            os.makedirs(os.path.join(env.VERIF, "replays"), exist_ok=True)
            path = os.path.join(env.VERIF, "replays", "%s-probe-%s-%d.json" % (prop.ID, kid, n_new))
            with open(path, "w") as f:
                json.dump({"property": prop.ID, "seed": 0, "tier": tier, "batch": "known-probe", "violation": v, "script": probe}, f, indent=1)
            self.say("VIOLATION property=%s replay=%s" % (prop.ID, path))
            self.say("  (probe of known finding %s failed in an unlisted way) oracle=%s observable=%s" % (kid, v["oracle"], v["observable"]))
        wall = time.time() - self.t0
        runs = a["runs"]
        cov = {
            "evaluations": a["steps"] if getattr(prop, "EVAL_UNIT", "runs") == "steps" else runs,
            "evaluations_unit": getattr(prop, "EVAL_UNIT_TEXT", "simulated runs (one forked process each)"),
            "distinct_nontrivial": len(a["nontrivial"]),
            "rule": prop.RULE,
            "samples": a["samples"][:3],
            "simulated_runs": runs,
            "runs_per_hour": int(runs / wall * 3600) if wall > 0 else 0,
            "simulated_time_steps": a["steps"],
            "simulated_time_unit": "scheduler steps (the library has no clock on any path these properties touch; one tick per simulator decision / session step)",
            "events_logged": a["events"],
            "distinct_event_log_digests": len(a["digests"]),
            "distinct_reference_states": len(a["states"]),
            "faults_fired": dict(sorted(a["faults"].items())),
            "seam_calls": dict(sorted(a["seams"].items())),
            "probes_hit": dict(sorted(a["probes"].items())),
            "per_batch": a["per_batch"],
            "components_real": prop.REAL,
            "components_stub": prop.STUB,
            "known_findings": known_out,
            "harness_errors": len(a["errors"]),
            "harness_error_samples": a["errors"][:3],
            "workers": NWORKERS,
            "exhaustive": False,
        }
        cov.update(prop.extra_coverage(a) if hasattr(prop, "extra_coverage") else {})
        ev = {
            "property_id": prop.ID, "tier": tier, "seed": self.seed, "level": prop.LEVEL,
            "coverage": cov, "assumptions": prop.ASSUMPTIONS, "wall_s": round(wall, 2), "violations": n_new,
        }
        os.makedirs(os.path.join(env.VERIF, "evidence"), exist_ok=True)
        with open(os.path.join(env.VERIF, "evidence", prop.ID + ".json"), "w") as f:
            json.dump(canon(ev), f, indent=1)
        self.say("  runs=%d steps=%d distinct_digests=%d nontrivial=%d faults=%s wall=%.1fs" % (
            runs, a["steps"], len(a["digests"]), len(a["nontrivial"]), dict(a["faults"]), wall))
        if n_new:
            return 1
        if a["errors"]:
            for e in a["errors"][:3]:
                self.say("HARNESS-ERROR job=%s\n%s" % (e["job"], e["error"]))
            # tolerate a tiny number of timeouts? no: a harness error is never a pass
            return 2
        if runs == 0:
            self.say("HARNESS-ERROR no runs completed")
            return 2
        self.say("OK property=%s held on everything explored" % prop.ID)
        return 0


def replay(prop, path):
    """re-execute a replay file in this fresh interpreter (in a forked child of the warmed parent)"""
    with open(path) as f:
        rp = json.load(f)
    prop.warm(rp.get("tier", "quick"))
    res = run_forked(prop, {"seed": rp.get("seed", 0), "batch": "replay", "tier": rp.get("tier", "quick"),
                            "script": rp["script"]}, prop.JOB_TIMEOUT)
    if res.get("error"):
        print("HARNESS-ERROR during replay\n" + res["error"])
        return 2
    want = vclass(rp["violation"]) if rp.get("violation") else None
    got = [v for v in res["violations"] if want is None or vclass(v) == want]
    print("replay digest   %s" % res["digest"])
    if rp.get("digest"):
        print("recorded digest %s (%s)" % (rp["digest"], "identical" if rp["digest"] == res["digest"] else "DIFFERENT"))
    if got:
        print("VIOLATION property=%s replay=%s" % (prop.ID, path))
        print("  oracle=%s observable=%s detail=%s" % (got[0]["oracle"], got[0]["observable"], json.dumps(got[0]["detail"])[:800]))
        return 1
    print("replay did not reproduce the violation (other violations: %d)" % len(res["violations"]))
    return 0
