"""Self-validation of the machinery (DESIGN section 7).

./check selftest-determinism [ids...]   for each property: N seeds per batch run twice in this process tree (1 worker and 16 workers) and once in a
                                        fresh interpreter with another PYTHONHASHSEED; event-log digests must be identical
./check selftest-replays                every replay file under replays/ reproduces its violation in a fresh interpreter (when there are any)
"""
import importlib
import json
import os
import subprocess
import sys
import time

from . import env
from . import runner

ALL = ["C03", "C04", "C06", "C08", "C09", "C10", "C13", "C19"]


def digests(prop, tier, seeds_per_batch, nworkers):
    out = {}
    jobs = []
    for b in prop.batches(tier):
        base = b.get("seed_offset", 0)
        for i in range(seeds_per_batch):
            jobs.append({"seed": base + i, "batch": b["name"], "tier": tier})

    def on_result(res):
        j = res["job"]
        out["%s:%d" % (j["batch"], j["seed"])] = res.get("digest") or ("ERROR:" + res.get("error", "")[-200:])

    runner.run_batch(prop, jobs, 600, job_timeout=prop.JOB_TIMEOUT, on_result=on_result, nworkers=nworkers)
    return out


def main(what, rest, tier, seed):
    if what == "selftest-determinism-child":
        # fresh interpreter: print digests as JSON
        pid, n = rest[0], int(rest[1])
        prop = importlib.import_module("sfsim.props." + pid.lower())
        prop.warm(tier)
        print("DIGESTS " + json.dumps(digests(prop, tier, n, 8)))
        return 0
    if what == "selftest-determinism":
        ids = [x for x in rest if not x.isdigit()] or ALL
        n = int(next((x for x in rest if x.isdigit()), "12"))
        bad = 0
        report = {}
        for pid in ids:
            t = time.time()
            prop = importlib.import_module("sfsim.props." + pid.lower())
            prop.warm(tier)
            a = digests(prop, tier, n, 16)
            b = digests(prop, tier, n, 1 if n <= 6 else 3)
            envx = dict(os.environ, PYTHONHASHSEED="12345")
            p = subprocess.run([sys.executable, "-m", "sfsim.cli", "selftest-determinism-child", pid, str(n), "--tier", tier], cwd=env.VERIF, env=envx,
                               capture_output=True, text=True, timeout=3600)
            line = next((ln for ln in p.stdout.splitlines() if ln.startswith("DIGESTS ")), None)
            c = json.loads(line[8:]) if line else {}
            diff_ab = [k for k in a if a[k] != b.get(k)]
            diff_ac = [k for k in a if a[k] != c.get(k)]
            errs = [k for k, v in a.items() if str(v).startswith("ERROR")]
            ok = not diff_ab and not diff_ac and not errs and len(a) > 0
            report[pid] = {"runs": len(a), "diff_workers": diff_ab[:5], "diff_fresh_interpreter_other_hashseed": diff_ac[:5], "errors": errs[:3], "ok": ok,
                           "wall_s": round(time.time() - t, 1)}
            print("determinism %s: %d runs x 3 executions (16 workers / few workers / fresh interpreter PYTHONHASHSEED=12345): %s" % (
                pid, len(a), "identical digests" if ok else "MISMATCH %s %s %s" % (diff_ab[:3], diff_ac[:3], errs[:2])), flush=True)
            bad += 0 if ok else 1
        os.makedirs(os.path.join(env.VERIF, "selftest"), exist_ok=True)
        with open(os.path.join(env.VERIF, "selftest", "determinism.json"), "w") as f:
            json.dump(report, f, indent=1)
        return 1 if bad else 0
    print("unknown selftest", what)
    return 2
