"""Seeded workload generators shared by the session-based properties (C03, C09, C10)."""

# name -> (n_modes, n_params) ; parameter ranges are chosen per kind below
GATES1 = ["Sgate", "Dgate", "Rgate", "Xgate", "Zgate", "Pgate", "Fourier"]
GATES2 = ["BSgate", "S2gate", "CXgate", "CZgate", "MZgate"]
FOCK_ONLY1 = ["Kgate", "Vgate"]
FOCK_ONLY2 = ["CKgate"]


def rnd(r, lo, hi):
    return round(r.uniform(lo, hi), 3)


def gate_params(r, name, small=False):
    s = 0.35 if small else 1.0
    if name == "Sgate":
        return [rnd(r, -0.6 * s, 0.6 * s), rnd(r, 0, 6.2)]
    if name == "Dgate":
        return [rnd(r, 0, 0.8 * s), rnd(r, 0, 6.2)]
    if name in ("Rgate",):
        return [rnd(r, -3.1, 3.1)]
    if name in ("Xgate", "Zgate"):
        return [rnd(r, -1.0 * s, 1.0 * s)]
    if name == "Pgate":
        return [rnd(r, -0.8 * s, 0.8 * s)]
    if name == "Fourier":
        return []
    if name == "BSgate":
        return [rnd(r, 0, 1.5), rnd(r, 0, 6.2)]
    if name == "MZgate":
        return [rnd(r, 0, 3.1), rnd(r, 0, 3.1)]
    if name == "S2gate":
        return [rnd(r, -0.5 * s, 0.5 * s), rnd(r, 0, 6.2)]
    if name in ("CXgate", "CZgate"):
        return [rnd(r, -0.6 * s, 0.6 * s)]
    if name == "Kgate":
        return [rnd(r, -1, 1)]
    if name == "Vgate":
        return [rnd(r, -0.1, 0.1)]
    if name == "CKgate":
        return [rnd(r, -1, 1)]
    raise KeyError(name)


def gen_ops(r, backend, n, L, measure=True, preps=True, channels=True, dagger=0.25, small=None,
            meas_kinds=None, feedforward=True, measured=None, free=(), allow_fock_meas=True):
    """list of op specs on modes 0..n-1.  `measured`: list of modes whose value may be used as parameter
    (mutated: measurements performed here are appended)."""
    small = backend == "fock" if small is None else small
    measured = [] if measured is None else measured
    out = []
    for _ in range(L):
        x = r.random()
        if x < 0.40:
            names = GATES1 + (FOCK_ONLY1 if backend == "fock" else [])
            g = r.choice(names)
            p = gate_params(r, g, small)
            # feed-forward / free parameter in the first slot
            y = r.random()
            tgt = r.randrange(n)
            if p and feedforward and measured and y < 0.25:
                src = r.choice(measured)
                if src != tgt:
                    p[0] = {"mul": [{"meas": src}, rnd(r, -0.3, 0.3)]}
            elif p and free and y < 0.45:
                f = r.choice(list(free))
                p[0] = r.choice([{"free": f}, {"mul": [{"free": f}, rnd(r, -0.5, 0.5)]}, {"neg": {"free": f}}])
            o = {"op": g, "p": p, "m": [tgt]}
            if g != "Fourier" and r.random() < dagger:
                o["dag"] = True
            out.append(o)
        elif x < 0.46 and backend == "gaussian" and n > 1 and r.random() < 0.5:
            # multi-mode operations that only exist as decompositions (compile time rebuilds them from the matrix every time)
            k = r.randint(2, n)
            ms = r.sample(range(n), k)
            which = r.choice(["Interferometer", "Interferometer", "GaussianTransform", "Gaussian"])
            o = {"op": which, "useed": r.randrange(1 << 20), "m": ms}
            if which == "Interferometer" and r.random() < 0.4:
                o["kw"] = {"mesh": r.choice(["rectangular", "triangular", "rectangular_symmetric"])}
            if which == "Gaussian":
                o["means"] = [rnd(r, -0.5, 0.5) for _ in range(2 * k)]
            out.append(o)
        elif x < 0.50 and backend == "bosonic":
            # measurement-based squeezing; with avg=False it measures an ancilla (RNG draw, Result.ancillae_samples)
            out.append({"op": "MSgate", "p": [rnd(r, -0.3, 0.3), rnd(r, 0, 3), rnd(r, 1.0, 2.0), rnd(r, 0.9, 1.0), r.random() < 0.5], "m": [r.randrange(n)]})
        elif x < 0.62 and n > 1:
            names = GATES2 + (FOCK_ONLY2 if backend == "fock" else [])
            g = r.choice(names)
            o = {"op": g, "p": gate_params(r, g, small), "m": r.sample(range(n), 2)}
            if r.random() < dagger:
                o["dag"] = True
            out.append(o)
        elif x < 0.72 and channels:
            if backend != "fock" and r.random() < 0.3 and (backend == "bosonic" or n == 1):
                out.append({"op": "ThermalLossChannel", "p": [rnd(r, 0.3, 1.0), rnd(r, 0, 0.5)], "m": [r.randrange(n)]})
            else:
                out.append({"op": "LossChannel", "p": [rnd(r, 0.3, 1.0)], "m": [r.randrange(n)]})
        elif x < 0.82 and preps:
            k = r.choice(["Coherent", "Squeezed", "Vacuum", "Thermal", "DisplacedSqueezed"] + (["Fock", "Catstate"] if backend == "fock" else []))
            if backend == "fock" and k == "Thermal":
                k = "Coherent"
            s = 0.4 if small else 1.0
            p = {"Coherent": [rnd(r, 0, 0.7 * s), rnd(r, 0, 6.2)], "Squeezed": [rnd(r, -0.5 * s, 0.5 * s), rnd(r, 0, 6.2)], "Vacuum": [],
                 "Thermal": [rnd(r, 0, 0.8)], "DisplacedSqueezed": [rnd(r, 0, 0.5 * s), rnd(r, 0, 6.2), rnd(r, -0.4 * s, 0.4 * s), rnd(r, 0, 6.2)],
                 "Fock": [r.randint(0, 2)], "Catstate": [rnd(r, 0.2, 0.7), rnd(r, 0, 3.1), r.choice([0, 1])]}[k]
            out.append({"op": k, "p": p, "m": [r.randrange(n)]})
        elif measure:
            kinds = meas_kinds or (["MeasureX", "MeasureP", "MeasureHomodyne", "MeasureHeterodyne"] if backend != "fock"
                                   else ["MeasureX", "MeasureFock", "MeasureFock", "MeasureHomodyne"])
            k = r.choice(kinds)
            if k == "MeasureFock" and not allow_fock_meas:
                k = "MeasureX"
            m = r.randrange(n)
            if k == "MeasureHomodyne":
                out.append({"op": k, "p": [rnd(r, -3.1, 3.1)], "m": [m]})
            elif k == "MeasureFock":
                ms = sorted(r.sample(range(n), r.randint(1, min(2, n))))
                out.append({"op": k, "m": ms})
                m = None
                for mm in ms:
                    if mm not in measured:
                        measured.append(mm)
            else:
                out.append({"op": k, "m": [m]})
            if m is not None and k != "MeasureHeterodyne" and m not in measured:
                measured.append(m)
            if k == "MeasureHeterodyne" and m in measured:
                measured.remove(m)  # its latest value is complex now: not usable as a real gate parameter
    return out
