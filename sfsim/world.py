"""World: the one integer, named PRNG sub-streams, the event log and the verdict of one simulated run."""
import hashlib
import json
import math
import random
from collections import Counter

import numpy as np


def sig(x, digits=10):
    """round a float to `digits` significant digits (what enters digests)"""
    if x == 0 or not math.isfinite(x):
        return 0.0 if x == 0 else repr(x)
    e = math.floor(math.log10(abs(x)))
    q = round(x, digits - 1 - e)
    # kill negative zero and sub-1e-12 dust so that -0.0 / 1e-17 do not split digests
    if abs(q) < 1e-12:
        return 0.0
    return q


def canon(o):
    """JSON-able canonical form: floats rounded, complex split, arrays listed, dict keys as str."""
    if o is None or isinstance(o, (bool, str)):
        return o
    if isinstance(o, (int, np.integer)):
        return int(o)
    if isinstance(o, (float, np.floating)):
        return sig(float(o))
    if isinstance(o, (complex, np.complexfloating)):
        return ["c", sig(float(o.real)), sig(float(o.imag))]
    if isinstance(o, np.ndarray):
        return canon(o.tolist())
    if isinstance(o, dict):
        return {str(k): canon(v) for k, v in sorted(o.items(), key=lambda kv: str(kv[0]))}
    if isinstance(o, (list, tuple)):
        return [canon(v) for v in o]
    if isinstance(o, (set, frozenset)):
        return sorted((canon(v) for v in o), key=lambda v: json.dumps(v, sort_keys=True))
    return repr(o)


def adigest(a, digits=8):
    """short digest of a numeric array (rounded) for event-log entries"""
    a = np.asarray(a)
    if a.dtype.kind == "c":
        a = np.stack([a.real, a.imag])
    if a.dtype.kind == "f":
        a = np.round(a.astype(float), digits) + 0.0  # +0.0 kills -0.0
    return hashlib.sha256(repr(a.shape).encode() + np.ascontiguousarray(a).tobytes()).hexdigest()[:12]


class Violation(Exception):
    """raised by oracles that want to stop the run at the first violation"""

    def __init__(self, oracle, observable, detail=None):
        super().__init__("%s/%s: %s" % (oracle, observable, detail))
        self.oracle, self.observable, self.detail = oracle, observable, detail


class HarnessError(Exception):
    """the simulator itself went wrong (never reported as VIOLATION, never as a pass)"""


class World:
    def __init__(self, seed, prop="?"):
        self.seed = int(seed)
        self.prop = prop
        self.events = []
        self.seq = 0
        self.violations = []  # dicts {oracle, observable, detail, seq}
        self.faults = Counter()  # fault kind -> times it FIRED
        self.seams = Counter()  # seam call kind -> count
        self.probes = Counter()  # "rare condition hit" counters
        self.nontrivial = set()  # keys of distinct non-trivial cases reached in this run
        self.states = set()  # digests of reference-model states reached
        self.steps = 0
        self.log("seed", seed=self.seed, prop=prop)

    # ---- one integer decides everything
    def stream(self, name):
        h = hashlib.sha256(("%d:%s" % (self.seed, name)).encode()).digest()
        return random.Random(int.from_bytes(h[:8], "big"))

    # ---- event log (never draws, never reads a clock)
    def log(self, kind, /, **data):
        self.seq += 1
        self.events.append([self.seq, kind, canon(data)])
        return self.seq

    def step(self, kind, /, **data):
        self.steps += 1
        return self.log("step:" + kind, **data)

    def fault(self, kind, /, **data):
        self.faults[kind] += 1
        return self.log("fault:" + kind, **data)

    def seam(self, kind, /, **data):
        self.seams[kind] += 1
        return self.log("seam:" + kind, **data)

    def probe(self, name, n=1):
        self.probes[name] += n

    def violation(self, oracle, observable, detail=None, features=None):
        v = {"oracle": oracle, "observable": observable, "detail": canon(detail), "seq": self.seq,
             "features": sorted(features or [])}
        self.violations.append(v)
        self.log("VIOLATION", oracle=oracle, observable=observable)
        return v

    def check(self, cond, oracle, observable, detail=None, features=None):
        if not cond:
            self.violation(oracle, observable, detail, features)
        return bool(cond)

    def digest(self):
        return hashlib.sha256(json.dumps(self.events, sort_keys=True).encode()).hexdigest()

    def result(self):
        return {
            "digest": self.digest(),
            "violations": self.violations,
            "faults": dict(self.faults),
            "seams": dict(self.seams),
            "probes": dict(self.probes),
            "nontrivial": sorted(self.nontrivial),
            "states": sorted(self.states),
            "steps": self.steps,
            "n_events": len(self.events),
        }
