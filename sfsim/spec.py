"""Workloads as data: JSON program specs -> library objects, and an independent expression evaluator.

program spec   {"n": 3, "ops": [op, ...], "name": "p0"}          (or "parent": <index in pool> instead of n)
op             {"op": "Sgate", "p": [expr, ...], "m": [0], "dag": true, "kw": {...}}
               {"op": "New", "n": 2} | {"op": "Del", "m": [1]}
expr           number | ["c", re, im] | {"free": name} | {"meas": mode} | {"neg": e} | {"add": [a, b]}
               | {"mul": [a, b]} | {"fn": "sin", "a": e} | {"pow": [e, k]} | {"arr": [numbers]}
"""
import cmath
import math

import numpy as np

FN = {
    "sin": math.sin, "cos": math.cos, "tanh": math.tanh, "exp": math.exp, "sqrt": math.sqrt,
    "sinh": math.sinh, "cosh": math.cosh, "arctan": math.atan, "atan": math.atan, "log": math.log, "Abs": abs,
    # for complex values (heterodyne outcomes)
    "re": lambda z: complex(z).real, "im": lambda z: complex(z).imag, "conjugate": lambda z: complex(z).conjugate(), "arg": lambda z: cmath.phase(complex(z)),
}


def is_sym(e):
    if isinstance(e, dict):
        if "free" in e or "meas" in e:
            return True
        return any(is_sym(v) for v in _children(e))
    return False


def _children(e):
    if "neg" in e:
        return [e["neg"]]
    if "add" in e:
        return e["add"]
    if "mul" in e:
        return e["mul"]
    if "fn" in e:
        return [e["a"]]
    if "pow" in e:
        return [e["pow"][0]]
    return []


def meas_deps(e):
    out = set()
    if isinstance(e, dict):
        if "meas" in e:
            out.add(e["meas"])
        for c in _children(e):
            out |= meas_deps(c)
    return out


def free_deps(e):
    out = set()
    if isinstance(e, dict):
        if "free" in e:
            out.add(e["free"])
        for c in _children(e):
            out |= free_deps(c)
    return out


def ev(e, bind=None, mvals=None):
    """independent numeric evaluation of an expression tree"""
    if isinstance(e, (int, float)):
        return e
    if isinstance(e, list):
        if e and e[0] == "c":
            return complex(e[1], e[2])
        return list(e)  # a plain numeric list parameter (e.g. the GKP state [theta, phi])
    if "arr" in e:
        return np.array(e["arr"], dtype=float)
    if "free" in e:
        return bind[e["free"]]
    if "meas" in e:
        return mvals[e["meas"]]
    if "neg" in e:
        return -ev(e["neg"], bind, mvals)
    if "add" in e:
        return ev(e["add"][0], bind, mvals) + ev(e["add"][1], bind, mvals)
    if "mul" in e:
        return ev(e["mul"][0], bind, mvals) * ev(e["mul"][1], bind, mvals)
    if "pow" in e:
        return ev(e["pow"][0], bind, mvals) ** e["pow"][1]
    if "fn" in e:
        return FN[e["fn"]](ev(e["a"], bind, mvals))
    raise ValueError(e)


def sym(e, prog, regs):
    """build the library's symbolic object for an expression tree (regs: dict index -> RegRef)"""
    import strawberryfields as sf

    if isinstance(e, (int, float)):
        return e
    if isinstance(e, list):
        if e and e[0] == "c":
            return complex(e[1], e[2])
        return list(e)
    if "arr" in e:
        return np.array(e["arr"], dtype=float)
    if "free" in e:
        return prog.params(e["free"])
    if "meas" in e:
        return regs[e["meas"]].par
    if "neg" in e:
        return -sym(e["neg"], prog, regs)
    if "add" in e:
        return sym(e["add"][0], prog, regs) + sym(e["add"][1], prog, regs)
    if "mul" in e:
        return sym(e["mul"][0], prog, regs) * sym(e["mul"][1], prog, regs)
    if "pow" in e:
        return sym(e["pow"][0], prog, regs) ** e["pow"][1]
    if "fn" in e:
        return getattr(sf.math, e["fn"])(sym(e["a"], prog, regs))
    raise ValueError(e)


SINGLETONS = {"Vac", "Fourier", "MeasureX", "MeasureP", "MeasureHD", "Del"}
NOARG = {"Vacuum", "MeasureFock", "MeasureThreshold", "MeasureHeterodyne"}


def seeded_unitary(seed, n):
    """Haar-ish random unitary from a private PRNG (QR of a complex Gaussian matrix); never touches numpy.random"""
    import random as _r

    rr = _r.Random("U:%d:%d" % (seed, n))
    z = np.array([[complex(rr.gauss(0, 1), rr.gauss(0, 1)) for _ in range(n)] for _ in range(n)])
    qm, rm_ = np.linalg.qr(z)
    d = np.diagonal(rm_)
    return qm * (d / np.abs(d))


def seeded_symplectic(seed, n, rmax=0.4):
    """S = O1 . diag(e^-r, e^r) . O2 in xxpp ordering, with passive O from seeded unitaries"""
    import random as _r

    rr = _r.Random("S:%d:%d" % (seed, n))

    def passive(u):
        x, y = u.real, u.imag
        return np.block([[x, -y], [y, x]])

    o1, o2 = passive(seeded_unitary(seed * 2 + 1, n)), passive(seeded_unitary(seed * 2 + 2, n))
    r_ = np.array([rr.uniform(-rmax, rmax) for _ in range(n)])
    z = np.diag(np.concatenate([np.exp(-r_), np.exp(r_)]))
    return o1 @ z @ o2


def make_op(o, prog, regs, numeric=None):
    """numeric: None -> symbolic build; else dict(bind=..., mvals=...) -> numbers substituted"""
    from strawberryfields import ops

    name = o["op"]
    kw = dict(o.get("kw", {}))
    if name == "GraphEmbed":
        return ops.GraphEmbed(np.array([[o["aval"]]]), **kw)
    if name == "Ggate":
        n_ = len(o["m"])
        import random as _r
        rr_ = _r.Random("G:%d" % o["useed"])
        return ops.Ggate(seeded_symplectic(o["useed"], n_, rmax=0.15), np.array([rr_.uniform(-0.2, 0.2) for _ in range(2 * n_)]))
    if name in ("Interferometer", "GaussianTransform", "Gaussian"):
        n_ = len(o["m"])
        if name == "Interferometer":
            return ops.Interferometer(np.identity(n_, dtype=complex) if o["useed"] == -1 else seeded_unitary(o["useed"], n_), **kw)
        if name == "GaussianTransform":
            if o.get("mat") is not None:
                return ops.GaussianTransform(np.array(o["mat"], dtype=float), **kw)
            return ops.GaussianTransform(seeded_symplectic(o["useed"], n_), **kw)
        import strawberryfields as sf
        S = seeded_symplectic(o["useed"], n_)
        V = S @ S.T * sf.hbar / 2
        return ops.Gaussian(V, r=np.array(o.get("means", [0.0] * (2 * n_))), **kw)
    if name == "KetArr":
        # array-valued parameter: a one-mode ket cos(t)|0> + sin(t)|1> (1-D array) or a two-mode ket cos(t)|01> + sin(t)|10> (2-D array) whose
        # entries are expressions (object array) or, in the numeric twin, numbers
        D, t = o["D"], o["p"][0]
        ce, se = {"fn": "cos", "a": t}, {"fn": "sin", "a": t}
        if numeric is None:
            c_, s_ = sym(ce, prog, regs), sym(se, prog, regs)
            symbolic = is_sym(t)
        else:
            c_, s_ = ev(ce, numeric.get("bind"), numeric.get("mvals")), ev(se, numeric.get("bind"), numeric.get("mvals"))
            symbolic = False
        arr = np.zeros((D,) * len(o["m"]), dtype=object if symbolic else float)
        if len(o["m"]) == 1:
            arr[0], arr[1] = c_, s_
        else:
            arr[0, 1], arr[1, 0] = c_, s_
        return ops.Ket(arr)
    for k, v in list(kw.items()):
        if isinstance(v, list) and v and v[0] == "c":
            kw[k] = complex(v[1], v[2])
    if name in ("MeasureX", "MeasureP", "MeasureHD", "Vac", "Fourier") and not kw and not o.get("p") and not o.get("fresh"):
        op = getattr(ops, name)
    else:
        cls = {"MeasureX": "MeasureHomodyne", "MeasureP": "MeasureHomodyne"}.get(name, name)
        pars = []
        for e in o.get("p", []):
            if numeric is None:
                pars.append(sym(e, prog, regs))
            else:
                pars.append(ev(e, numeric.get("bind"), numeric.get("mvals")))
        if name == "MeasureP" and not pars:
            pars = [math.pi / 2]
        if name == "MeasureX" and not pars:
            pars = [0]
        if name == "Fourier":
            cls = "Fouriergate"
        if name == "Vac":
            cls = "Vacuum"
        op = getattr(ops, cls)(*pars, **kw)
    if o.get("dag"):
        op = op.H
    return op


def build_program(spec, parent=None, numeric=None, name=None, on_cmd=None):
    """spec -> sf.Program.  `parent` (a Program) makes a successor program.  Raises whatever the front end
    raises (callers decide whether that is expected)."""
    import strawberryfields as sf
    from strawberryfields import ops

    if parent is not None:
        p = sf.Program(parent, name=name or spec.get("name"))
    else:
        p = sf.Program(spec["n"], name=name or spec.get("name"))
    shared = {}  # "obj" key -> the one gate object the user created and applies several times, plainly or as .H
    with p.context as q:
        regs = {r.ind: r for r in p.register}
        for idx, o in enumerate(spec["ops"]):
            if o["op"] == "New":
                new = ops.New(o["n"])
                for r in new:
                    regs[r.ind] = r
                continue
            if o["op"] == "Del":
                ops.Del | [regs[m] for m in o["m"]]
                continue
            mv = None
            if numeric is not None and numeric.get("mvals_at") is not None:
                mv = dict(numeric, mvals=numeric["mvals_at"][idx])
            if o.get("obj") is not None:
                if o["obj"] not in shared:
                    shared[o["obj"]] = make_op({k_: v_ for k_, v_ in o.items() if k_ != "dag"}, p, regs, numeric if mv is None else mv)
                op = shared[o["obj"]].H if o.get("dag") else shared[o["obj"]]
            else:
                op = make_op(o, p, regs, numeric if mv is None else mv)
            targets = [regs[m] for m in o["m"]]
            op | (targets if len(targets) > 1 else targets[0])
            if on_cmd:
                on_cmd(idx, o, p.circuit[-1])
    return p


# ---- structural fingerprint of a user-held program (C09 oracle 3; reused by C03, C13)
def par_repr(x):
    import sympy

    if isinstance(x, np.ndarray):
        if x.dtype == object:
            return ["objarr", [par_repr(v) for v in x.ravel().tolist()]]
        return ["arr", list(x.shape), [par_repr(v) for v in x.ravel().tolist()]]
    if isinstance(x, sympy.Basic):
        return ["sym", sympy.srepr(x)]
    if isinstance(x, (complex, np.complexfloating)):
        return ["c", repr(float(x.real)), repr(float(x.imag))]
    if isinstance(x, (float, np.floating)):
        return ["f", repr(float(x))]
    if isinstance(x, (int, np.integer)):
        return ["i", int(x)]
    return ["o", type(x).__name__, repr(x)[:200]]


def op_fp(op):
    d = {"cls": type(op).__name__, "id": id(op), "p": [par_repr(x) for x in getattr(op, "p", [])]}
    for attr in ("dagger", "select", "dark_counts", "ns", "mesh", "drop_identity", "tol", "active", "r", "cutoff"):
        if hasattr(op, attr):
            v = getattr(op, attr)
            d[attr] = par_repr(v) if not isinstance(v, (bool, str, type(None))) else v
    for attr in ("U1", "U2", "S", "V", "p_disp", "x_disp", "sq", "nbar", "W"):
        if hasattr(op, attr):
            v = getattr(op, attr)
            try:
                d[attr] = par_repr(np.asarray(v)) if v is not None else None
            except Exception:
                d[attr] = repr(type(v))
    d["measurement_deps"] = sorted(r.ind for r in getattr(op, "measurement_deps", ()))
    # every other instance attribute too (an operation object that remembers something from being applied - a cached matrix, a flag - is
    # no longer the object the user wrote): name, and value where it has a stable representation
    for attr, v in sorted(getattr(op, "__dict__", {}).items()):
        if attr in d or attr in ("p", "_measurement_deps", "_extra_deps", "decomp"):
            continue
        if isinstance(v, (bool, int, float, complex, str, type(None))):
            d["attr:" + attr] = v if not isinstance(v, complex) else [v.real, v.imag]
        elif isinstance(v, np.ndarray):
            d["attr:" + attr] = par_repr(v)
        else:
            d["attr:" + attr] = "<%s>" % type(v).__name__
    return d


def program_fp(p, with_ids=True):
    """everything of a Program the library does not document changing when it is compiled or run.
    Excluded on purpose: RegRef.val, Program.locked, bound values of free parameters."""
    circ = []
    for c in p.circuit or []:
        e = {"cmd": id(c) if with_ids else 0, "op": op_fp(c.op), "reg": [r.ind for r in c.reg],
             "regids": [id(r) for r in c.reg] if with_ids else []}
        if not with_ids:
            e["op"]["id"] = 0
        circ.append(e)
    fp = {
        "circuit_list_id": id(p.circuit) if with_ids else 0,
        "circuit": circ,
        "reg_refs": [[k, id(v) if with_ids else 0, bool(v.active), v.ind] for k, v in p.reg_refs.items()],
        "unused": sorted(getattr(p, "unused_indices", set())),
        "init_num_subsystems": p.init_num_subsystems,
        "num_subsystems": p.num_subsystems,
        "run_options": repr(sorted(p.run_options.items())),
        "backend_options": repr(sorted(p.backend_options.items())),
        "target": getattr(p, "_target", None),
        "compile_info": repr(getattr(p, "_compile_info", None)),
        "free_params": sorted(p.free_params.keys()),
        "name": p.name,
    }
    for attr in ("tdm_params", "N", "timebins", "concurr_modes", "total_timebins", "shots", "_unrolled_shots",
                 "_is_space_unrolled", "_num_added_subsystems", "is_unrolled", "loops", "spatial_modes"):
        if hasattr(p, attr):
            v = getattr(p, attr)
            try:
                fp[attr] = par_repr(np.asarray(v)) if isinstance(v, (list, np.ndarray)) else repr(v)
            except Exception:
                fp[attr] = repr(v)
    for attr in ("rolled_circuit", "unrolled_circuit", "space_unrolled_circuit"):
        if hasattr(p, attr):
            v = getattr(p, attr)
            fp[attr] = None if v is None else [[id(c) if with_ids else 0, type(c.op).__name__, [r.ind for r in c.reg]] for c in v]
    return fp


def fp_diff(a, b, path=""):
    """first difference between two fingerprints, as a readable path"""
    if type(a) != type(b):
        return "%s: type %s -> %s" % (path, type(a).__name__, type(b).__name__)
    if isinstance(a, dict):
        for k in sorted(set(a) | set(b)):
            if k not in a or k not in b:
                return "%s.%s: present %s -> %s" % (path, k, k in a, k in b)
            d = fp_diff(a[k], b[k], path + "." + str(k))
            if d:
                return d
        return None
    if isinstance(a, list):
        if len(a) != len(b):
            return "%s: len %d -> %d" % (path, len(a), len(b))
        for i, (x, y) in enumerate(zip(a, b)):
            d = fp_diff(x, y, "%s[%d]" % (path, i))
            if d:
                return d
        return None
    if a != b:
        return "%s: %r -> %r" % (path, a, b)
    return None
