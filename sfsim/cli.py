"""command line: ./check <id> --tier quick|thorough | --replay file"""
import argparse
import importlib
import os
import sys

from . import env  # noqa  (must be first: pins threads, sys.path)


def load_prop(pid):
    return importlib.import_module("sfsim.props." + pid.lower())


def main(argv=None):
    ap = argparse.ArgumentParser()
    ap.add_argument("what")
    ap.add_argument("rest", nargs="*")
    ap.add_argument("--tier", default=os.environ.get("VERIF_TIER", "quick"), choices=["quick", "thorough"])
    ap.add_argument("--replay")
    ap.add_argument("--seed", type=int, default=None)
    a = ap.parse_args(argv)
    seed = a.seed if a.seed is not None else int(os.environ.get("VERIF_SEED", "0") or 0)
    if a.what.startswith("selftest"):
        from . import selftest
        return selftest.main(a.what, a.rest, a.tier, seed)
    prop = load_prop(a.what)
    from . import runner
    if a.replay:
        return runner.replay(prop, a.replay)
    return runner.Check(prop, a.tier, seed).run()


if __name__ == "__main__":
    sys.exit(main())
