"""Independent reference calculations (NumPy only; shares no code with the backends).

Phase space: states are mixtures  rho = sum_j w_j G(mu_j, Sigma_j)  of (possibly complex-parameter) Gaussians,
in xxpp ordering and hbar = 2 units.  A Gaussian state is a mixture with one peak.
"""
import math

import numpy as np


# ------------------------------------------------------------------------------------------------
# snapshots of backend states -> canonical mixture (xxpp, hbar=2)
# ------------------------------------------------------------------------------------------------
class Mixture:
    def __init__(self, w, mu, cov):
        # always copy: the bosonic backend hands out its own weight array and later rescales it in place
        self.w = np.array(w, dtype=complex).reshape(-1)
        self.mu = np.array(mu, dtype=complex)
        self.cov = np.array(cov, dtype=complex)
        self.n = self.mu.shape[1] // 2

    def chi(self, t):
        """characteristic function  sum_j w_j exp(i t.mu_j - t.Sigma_j.t / 2)"""
        t = np.asarray(t, dtype=float)
        ph = 1j * (self.mu @ t) - 0.5 * np.einsum("i,jik,k->j", t, self.cov, t)
        return np.sum(self.w * np.exp(ph))

    def reduced(self, modes):
        idx = list(modes) + [m + self.n for m in modes]
        return Mixture(self.w, self.mu[:, idx], self.cov[:, idx][:, :, idx])


def snapshot(st, hbar):
    """state object (Gaussian or bosonic) -> Mixture"""
    cls = type(st).__name__
    n = st.num_modes
    if cls == "BaseGaussianState":
        mu = np.asarray(st.means(), dtype=float) / math.sqrt(hbar / 2)
        V = np.asarray(st.cov(), dtype=float) / (hbar / 2)
        return Mixture([1.0], mu[None, :], V[None, :, :])
    if cls == "BaseBosonicState":
        idx = list(range(0, 2 * n, 2)) + list(range(1, 2 * n, 2))  # xpxp -> xxpp
        w = np.asarray(st.weights())
        mu = np.asarray(st.means())[:, idx] / math.sqrt(hbar / 2)
        cov = np.asarray(st.covs())[:, idx][:, :, idx] / (hbar / 2)
        return Mixture(w, mu, cov)
    raise TypeError(cls)


def mixtures_close(a, b, rng, npts=10, tol=1e-6):
    """compare two mixtures as *states* (independent of how peaks are ordered or merged) through their characteristic
    functions at seeded points; returns None or a description"""
    if a.n != b.n:
        return "mode count %d vs %d" % (a.n, b.n)
    worst = 0.0
    for k in range(npts):
        t = np.array([rng.uniform(-1.2, 1.2) for _ in range(2 * a.n)])
        if k == 0:
            t = t * 0.0  # normalisation
        ca, cb = a.chi(t), b.chi(t)
        d = abs(ca - cb)
        worst = max(worst, d)
        # mixtures with large weights of alternating sign (Fock states as differences of Gaussians) lose digits to cancellation
        cancel = 1e-9 * (float(np.sum(np.abs(a.w))) + float(np.sum(np.abs(b.w))))
        if not d <= tol * max(1.0, abs(ca)) + cancel:
            return "characteristic function differs by %.3g at t=%s (%.6g%+.6gj vs %.6g%+.6gj)" % (
                d, np.round(t, 3).tolist(), ca.real, ca.imag, cb.real, cb.imag)
    return None


def rot_xxpp(n, k, phi):
    R = np.eye(2 * n)
    c, s = math.cos(phi), math.sin(phi)
    R[k, k] = c
    R[k, k + n] = -s
    R[k + n, k] = s
    R[k + n, k + n] = c
    return R


def rotate(mix, k, phi):
    R = rot_xxpp(mix.n, k, phi)
    return Mixture(mix.w, mix.mu @ R.T, np.einsum("ab,jbc,dc->jad", R, mix.cov, R))


def gauss_pdf(y, mu, S):
    """N(y; mu, S) for complex mu / S (analytic continuation)"""
    d = np.asarray(y, dtype=complex) - mu
    return np.exp(-0.5 * d @ np.linalg.solve(S, d)) / np.sqrt(np.linalg.det(2 * np.pi * S))


class DyneRef:
    """general-dyne measurement of mode k of a mixture with measurement covariance `mc` (2x2, hbar=2 units)"""

    def __init__(self, mix, k, mc):
        self.mix, self.k, self.mc = mix, k, np.asarray(mc, dtype=float)
        n = mix.n
        self.B = [k, k + n]
        self.A = [i for i in range(2 * n) if i not in self.B]
        self.muB = mix.mu[:, self.B]
        self.S = mix.cov[:, self.B][:, :, self.B] + self.mc[None]

    def density(self, y):
        """Born density of outcome y = (x, p)"""
        return self.density_many(np.asarray(y, dtype=float)[None, :])[0]

    def density_many(self, Y):
        """Born density at M points Y (M, 2), vectorised over peaks"""
        if not hasattr(self, "_Sinv"):
            self._Sinv = np.linalg.inv(self.S)
            self._pref = 1.0 / np.sqrt(np.linalg.det(2 * np.pi * self.S))
        d = np.asarray(Y, dtype=complex)[:, None, :] - self.muB[None, :, :]  # (M, J, 2)
        e = np.einsum("mja,jab,mjb->mj", d, self._Sinv, d)
        return np.einsum("j,j,mj->m", self.mix.w, self._pref, np.exp(-0.5 * e))

    def abs_density(self, y):
        """sum of the absolute values of the terms of density(y): the scale of rounding errors when terms cancel"""
        self.density(y)
        d = np.asarray(y, dtype=complex)[None, :] - self.muB
        e = np.einsum("ja,jab,jb->j", d, self._Sinv, d)
        return float(np.sum(np.abs(self.mix.w * self._pref * np.exp(-0.5 * e))))

    def mean_cov(self):
        """mean and covariance of the outcome distribution (exact for one peak; moment-matched otherwise)"""
        w = self.mix.w / np.sum(self.mix.w)
        m = np.einsum("j,jb->b", w, self.muB)
        second = np.einsum("j,jab->ab", w, self.S + np.einsum("ja,jb->jab", self.muB, self.muB))
        return np.real(m), np.real(second - np.outer(m, m))

    def conditional(self, y, normalise=True):
        """post-measurement mixture for outcome y: Schur complement per peak, peak re-weighting, measured mode -> vacuum"""
        mix, A, B = self.mix, self.A, self.B
        n2 = 2 * mix.n
        ws, mus, covs = [], [], []
        for j in range(len(mix.w)):
            VA = mix.cov[j][np.ix_(A, A)]
            VAB = mix.cov[j][np.ix_(A, B)]
            K = VAB @ np.linalg.inv(self.S[j])
            muA = mix.mu[j][A] + K @ (np.asarray(y, dtype=complex) - self.muB[j])
            VA2 = VA - K @ VAB.T
            mu2 = np.zeros(n2, dtype=complex)
            V2 = np.eye(n2, dtype=complex)
            mu2[A] = muA
            V2[np.ix_(A, A)] = VA2
            ws.append(mix.w[j] * gauss_pdf(y, self.muB[j], self.S[j]))
            mus.append(mu2)
            covs.append(V2)
        ws = np.array(ws)
        return Mixture(ws / np.sum(ws) if normalise else ws, np.array(mus), np.array(covs))


def vacuum_fidelity(mix, k):
    """<0| rho_k |0> of mode k (hbar = 2)"""
    d = DyneRef(mix, k, np.eye(2))
    return np.real(d.density(np.zeros(2)) * 4 * math.pi)  # (2 pi hbar) with hbar = 2


def threshold_conditional(mix, k, outcome):
    """post-measurement mixture of an on/off detection of mode k"""
    d = DyneRef(mix, k, np.eye(2))
    p0 = vacuum_fidelity(mix, k)
    if outcome == 0:
        return d.conditional(np.zeros(2)), p0  # normalised state given 'no click'
    c0 = d.conditional(np.zeros(2), normalise=False)
    c0 = Mixture(c0.w * 4 * math.pi / p0 if p0 > 0 else c0.w, c0.mu, c0.cov)  # weights sum to 1 (or are all ~0 when p0 = 0)
    # click: (rho_A (x) vac  -  p0 * rho_A|0 (x) vac) / (1 - p0)
    n2 = 2 * mix.n
    B, A = d.B, d.A
    mus, covs = [], []
    for j in range(len(mix.w)):
        mu2 = np.zeros(n2, dtype=complex)
        V2 = np.eye(n2, dtype=complex)
        mu2[A] = mix.mu[j][A]
        V2[np.ix_(A, A)] = mix.cov[j][np.ix_(A, A)]
        mus.append(mu2)
        covs.append(V2)
    w = np.concatenate([mix.w / (1 - p0), -(p0 if p0 > 0 else 4 * math.pi) * c0.w / (1 - p0)])
    return Mixture(w, np.concatenate([np.array(mus), c0.mu]), np.concatenate([np.array(covs), c0.cov])), p0


# ------------------------------------------------------------------------------------------------
# Fock space
# ------------------------------------------------------------------------------------------------
def joint_number_distribution(rho, n, modes_sorted):
    """rho with index order (i0, j0, i1, j1, ...); returns tensor over `modes_sorted` (ascending)"""
    probs = np.real(np.einsum(rho, [x for m in range(n) for x in (m, m)], list(range(n))))
    other = tuple(m for m in range(n) if m not in modes_sorted)
    return probs.sum(axis=other) if other else probs


def project_number(rho, n, outcome):
    """outcome: dict mode -> k ; project, reset measured modes to vacuum, normalise"""
    cur = rho
    for m, k in outcome.items():
        proj = np.zeros_like(cur)
        src = [slice(None)] * (2 * n)
        dst = [slice(None)] * (2 * n)
        src[2 * m] = src[2 * m + 1] = k
        dst[2 * m] = dst[2 * m + 1] = 0
        proj[tuple(dst)] = cur[tuple(src)]
        cur = proj
    tr = np.real(np.einsum(cur, [x for m in range(n) for x in (m, m)], []))
    return cur / tr, tr


def psi_n(nmax, x, hbar):
    """position wavefunctions psi_0..psi_{nmax-1}(x) for the given hbar (omega = m = 1), by the stable recurrence"""
    x = np.asarray(x, dtype=float)
    out = np.zeros((nmax,) + x.shape)
    xi = x / math.sqrt(hbar)
    out[0] = (math.pi * hbar) ** -0.25 * np.exp(-xi ** 2 / 2)
    if nmax > 1:
        out[1] = math.sqrt(2) * xi * out[0]
    for k in range(2, nmax):
        out[k] = math.sqrt(2.0 / k) * xi * out[k - 1] - math.sqrt((k - 1) / k) * out[k - 2]
    return out


def homodyne_density(rho1, phi, x, hbar):
    """Born density of x_phi for a single-mode density matrix"""
    D = rho1.shape[0]
    nn = np.arange(D)
    rr = rho1 * np.exp(-1j * phi * (nn[:, None] - nn[None, :]))
    P = psi_n(D, x, hbar)
    return np.real(np.einsum("nm,nx,mx->x", rr, P, P))


def homodyne_project(rho, n, mode, phi, x, hbar):
    """<x_phi| rho |x_phi> on `mode`, measured mode reset to vacuum, normalised"""
    D = rho.shape[0]
    bra = psi_n(D, np.array([x]), hbar)[:, 0] * np.exp(-1j * np.arange(D) * phi)  # <x_phi|k>
    idx = list(range(2 * n))
    out_idx = [i for i in idx if i not in (2 * mode, 2 * mode + 1)]
    red = np.einsum(bra, [2 * mode], rho, idx, bra.conj(), [2 * mode + 1], out_idx)
    tr = np.real(np.einsum(red, [x_ for m in range(n - 1) for x_ in (m, m)], [])) if n > 1 else np.real(red)
    red = red / tr
    vac = np.zeros((D, D), dtype=complex)
    vac[0, 0] = 1.0
    full = np.tensordot(red, vac, axes=0) if n > 1 else vac
    if n > 1:
        # move the two new axes to the position of `mode`
        full = np.moveaxis(full, [-2, -1], [2 * mode, 2 * mode + 1])
    return full, tr
