"""C04 - every internal circuit reordering respects mode and measurement dependencies.

The simulator owns the *sorter*: networkx's topological sorters are replaced (SortSeam) by a generator
whose every "next ready command" is a scheduler decision.  For each generated circuit the reordering
functions are driven under: the native networkx order (schedule 0), seeded random picks, two adversaries
(ready command furthest from / nearest to its original position) and - when the walk is small enough -
every choice sequence the sorter could make in this run.
"""
import hashlib
import json
import random

from .. import env  # noqa
from ..seams import SortSeam
from ..world import Violation
from ..spec import build_program, meas_deps
from ..runner import ddmin_list

ID = "C04"
LEVEL = "exploration"
EVAL_UNIT = "steps"
EVAL_UNIT_TEXT = "(circuit, reordering function, sorter schedule) executions; simulated_runs counts circuits"
BUDGET = {"quick": 200, "thorough": 900}
JOB_TIMEOUT = 120
MINIMISE_S = {"quick": 40, "thorough": 120}
RULE = ("cases = seeded circuits (1-40 commands, 2-8 modes; gates, 2-mode gates in both mode orders, Fock/homodyne "
        "measurements incl. threshold detectors, preparations, feed-forward gates, New/Del; optionally registers holding values of an earlier run, a foreign circuit first, one kept compiler object) x sorter schedules (native networkx, seeded random, "
        "adversarial far/near, all choice sequences when <= cap); a (circuit, function, schedule) triple is non-trivial "
        "iff the sorter met at least one decision with >= 2 legal candidates (DAG with >= 2 linear extensions); "
        "distinct = distinct sha256(circuit, function, choice sequence)")
REAL = ["strawberryfields.program_utils (list_to_grid, grid_to_DAG, list_to_DAG, DAG_to_list, group_operations, optimize_circuit)",
        "strawberryfields.program.Program (context, append, compile, optimize)", "strawberryfields.compilers.gbs.GBS",
        "strawberryfields.compilers.xunitary.Xunitary (its two group_operations passes)", "strawberryfields.ops", "networkx.DiGraph"]
STUB = ["networkx.algorithms.dag.topological_sort / lexicographical_topological_sort: replaced by the SortSeam in all "
        "schedules except schedule 0 (native)"]
ASSUMPTIONS = [
    "the sorters' contract is 'any topological order' (lexicographic variant: among ready nodes of minimal key); the "
    "SortSeam returns only orders that contract allows",
    "required order = pairs sharing a register mode, or a command acting on mode m and a command whose parameter is a "
    "measured value of m (either order); two gates that merely both read the same measured value are not required to keep order",
    "a CircuitError from a compile path is an accepted outcome; any other exception is a violation",
]


def warm(tier):
    env.import_sf()
    import strawberryfields.program_utils  # noqa
    import strawberryfields.compilers  # noqa


def batches(tier):
    if tier == "quick":
        return [{"name": "mixed", "runs": 5200, "weight": 3}, {"name": "gbs-shaped", "runs": 2600, "weight": 1, "seed_offset": 500000},
                {"name": "xunitary", "runs": 1000, "weight": 1, "seed_offset": 700000}]
    return [{"name": "mixed", "runs": 60000, "weight": 3}, {"name": "gbs-shaped", "runs": 30000, "weight": 1, "seed_offset": 500000},
            {"name": "xunitary", "runs": 8000, "weight": 1, "seed_offset": 700000}]


# ------------------------------------------------------------------------------------------------
def generate(seed, tier, batch):
    r = random.Random("c04:%d" % seed)
    big = tier == "thorough"
    if batch == "xunitary":
        return gen_xunitary(r, seed)
    n = r.randint(2, 8 if big else 6)
    L = r.randint(1, 40 if big else 24)
    gbs = batch == "gbs-shaped"
    ops = []
    alive = list(range(n))
    measured = []
    nxt = n
    for k in range(L):
        x = r.random()
        late = k >= L * 0.6
        if gbs:
            # gaussian primitives first, Fock measurements late, a few early ones on otherwise untouched modes.  Mostly well-formed GBS
            # circuits (a mode is measured once, nothing acts on it afterwards); one in four runs ignores that, so refusals stay exercised
            sloppy = seed % 4 == 0
            free_ = [m for m in alive if m not in measured] if not sloppy else list(alive)
            if not free_:
                break
            if late or x < 0.08:
                ms = r.sample(free_, r.randint(1, min(3, len(free_))))
                # threshold detectors are primitives of the compiler too: they are measurements, but not the ones that get collected
                ops.append({"op": "MeasureFock" if r.random() < 0.85 else "MeasureThreshold", "m": ms})
                measured += [m for m in ms if m not in measured]
                rest_ = [m for m in alive if m not in measured]
                if not late and rest_ and r.random() < 0.5:
                    # feed-forward from an early photon count onto a mode that is measured later: no collected measurement can come after it
                    ops.append({"op": r.choice(["Dgate", "Rgate"]), "p": [{"mul": [{"meas": ms[0]}, round(r.uniform(0.1, 0.9), 3)]}], "m": [r.choice(rest_)]})
                continue
            if x < 0.45:
                ops.append({"op": r.choice(["Sgate", "Rgate", "Dgate"]), "p": [round(r.uniform(-1, 1), 3)], "m": [r.choice(free_)]})
            elif x < 0.8 and len(free_) > 1:
                ops.append({"op": "BSgate", "p": [round(r.uniform(0, 1.5), 3), round(r.uniform(0, 3), 3)], "m": r.sample(free_, 2)})
            elif x < 0.9:
                ops.append({"op": "LossChannel", "p": [round(r.uniform(0.2, 1), 3)], "m": [r.choice(free_)]})
            else:
                ops.append({"op": "Fourier", "m": [r.choice(free_)]})
            continue
        if x < 0.30:
            ops.append({"op": r.choice(["Sgate", "Rgate", "Dgate", "Kgate", "Vgate", "Pgate"]), "p": [round(r.uniform(-1, 1), 3)],
                        "m": [r.choice(alive)], "dag": r.random() < 0.2})
        elif x < 0.52 and len(alive) > 1:
            g = r.choice(["BSgate", "S2gate", "CXgate", "CZgate", "CKgate"])
            ops.append({"op": g, "p": [round(r.uniform(-1, 1), 3)], "m": r.sample(alive, 2)})
        elif x < 0.64:
            ms = r.sample(alive, r.randint(1, min(2, len(alive))))
            ops.append({"op": "MeasureFock", "m": ms})
            measured += [m for m in ms if m not in measured]
        elif x < 0.74:
            m = r.choice(alive)
            ops.append({"op": r.choice(["MeasureX", "MeasureP", "MeasureHD"]), "m": [m]})
            if m not in measured:
                measured.append(m)
        elif x < 0.80:
            ops.append({"op": r.choice(["Vacuum", "Coherent", "Squeezed", "Fock"]), "m": [r.choice(alive)]})
            if ops[-1]["op"] in ("Coherent", "Squeezed"):
                ops[-1]["p"] = [round(r.uniform(0, 1), 3)]
            if ops[-1]["op"] == "Fock":
                ops[-1]["p"] = [r.randint(0, 2)]
        elif x < 0.92 and measured:
            # feed-forward: classical dependency, possibly without any shared register mode
            src = r.choice([m for m in measured])
            tg = r.choice(alive)
            if src not in alive or (tg == src and r.random() < 0.7):
                continue  # mostly onto another mode; sometimes the measured mode itself gets a gate with its own value
            e = {"mul": [{"meas": src}, round(r.uniform(-1, 1), 3) or 0.5]}  # never 0: q.par * 0 is simplified to the number 0 (no dependency)
            if r.random() < 0.3 and len(measured) > 1:
                src2 = r.choice(measured)
                if src2 in alive:
                    e = {"add": [e, {"meas": src2}]}
            ops.append({"op": r.choice(["Dgate", "Rgate", "Xgate", "Zgate"]), "p": [e], "m": [tg]})
        elif x < 0.95 and nxt < 10:
            k_new = r.choice([1, 1, 2])
            ops.append({"op": "New", "n": k_new, "m": list(range(nxt, nxt + k_new))})
            alive += list(range(nxt, nxt + k_new))
            nxt += k_new
        elif len(alive) > 2:
            m = r.choice(alive)
            ops.append({"op": "Del", "m": [m]})
            alive.remove(m)
            if m in measured:
                measured.remove(m)
    if not ops:
        ops.append({"op": "Sgate", "p": [0.1], "m": [0]})
    # marking: by class, or an arbitrary seeded subset of op positions
    mk = r.random()
    if gbs or mk < 0.4:
        mark = {"type": "class", "cls": "MeasureFock"}
    elif mk < 0.6:
        mark = {"type": "class", "cls": r.choice(["S2gate", "BSgate", "Sgate", "MeasureHomodyne"])}
    else:
        mark = {"type": "idx", "idx": sorted(r.sample(range(len(ops)), r.randint(0, max(1, len(ops) // 3))))}
    nsched = 6 if not big else 10
    scheds = [{"mode": "native"}, {"mode": "far"}, {"mode": "near"}] + [{"mode": "random", "k": i} for i in range(nsched - 3)]
    scheds.append({"mode": "enum", "cap": 60 if not big else 200})
    return {"kind": "circuit", "n": n, "ops": ops, "mark": mark, "schedules": scheds, "sseed": seed, "foreign_first": r.random() < 0.25, "values_present": r.random() < 0.3,
            "kept_compiler": r.random() < 0.5}


def gen_xunitary(r, seed):
    """X-series shaped circuits: S2gates (i, i+n/2) first, an interferometer-like block of BS/R gates on each half,
    all modes Fock measured; plus perturbations (commuting shuffles, an op before a squeezer, missing measurement)"""
    half = r.choice([1, 2, 3, 4])
    n = 2 * half
    ops = []
    for i in range(half):
        if r.random() < 0.85:
            ops.append({"op": "S2gate", "p": [round(r.uniform(0, 1), 3), 0.0], "m": [i, i + half]})
    block = []
    for _ in range(r.randint(0, 3 * half)):
        h = r.choice([0, 1])
        if half > 1 and r.random() < 0.6:
            a = r.randrange(half - 1)
            block.append({"op": r.choice(["BSgate", "MZgate"]), "p": [round(r.uniform(0, 1.5), 3), round(r.uniform(0, 3), 3)], "m": [a, a + 1]})
        else:
            block.append({"op": "Rgate", "p": [round(r.uniform(-3, 3), 3)], "m": [r.randrange(half)]})
    # same unitary on both halves
    for b in block:
        ops.append(dict(b))
    for b in block:
        ops.append(dict(b, m=[m + half for m in b["m"]]))
    if r.random() < 0.7:
        ops.append({"op": "MeasureFock", "m": list(range(n))})
    else:
        perm = list(range(n))
        r.shuffle(perm)
        cut = r.randint(1, n)
        ops.append({"op": "MeasureFock", "m": perm[:cut]})
        if cut < n and r.random() < 0.8:
            ops.append({"op": "MeasureFock", "m": perm[cut:]})
    # perturbation: seeded random adjacent swaps of commuting commands (keeps the circuit equivalent)
    for _ in range(r.randint(0, 2 * len(ops))):
        i = r.randrange(len(ops) - 1) if len(ops) > 1 else 0
        if len(ops) > 1 and not set(ops[i]["m"]) & set(ops[i + 1]["m"]):
            ops[i], ops[i + 1] = ops[i + 1], ops[i]
    if r.random() < 0.15:
        ops.insert(r.randrange(len(ops)), {"op": "Rgate", "p": [0.3], "m": [r.randrange(n)]})
    scheds = [{"mode": "native"}, {"mode": "far"}, {"mode": "near"}, {"mode": "random", "k": 0}, {"mode": "random", "k": 1}]
    return {"kind": "xunitary", "n": n, "ops": ops, "mark": {"type": "class", "cls": "S2gate"}, "schedules": scheds, "sseed": seed}


# ------------------------------------------------------------------------------------------------
class TapePicker:
    """odometer over choice sequences: follows `tape`, then takes 0; records widths"""

    def __init__(self, tape):
        self.tape = list(tape)
        self.i = 0
        self.widths = []
        self.taken = []

    def __call__(self, cands):
        c = self.tape[self.i] if self.i < len(self.tape) else 0
        if c >= len(cands):
            c = len(cands) - 1
        self.i += 1
        self.widths.append(len(cands))
        self.taken.append(c)
        return c

    def next_tape(self):
        t = list(self.taken)
        while t:
            if t[-1] + 1 < self.widths[len(t) - 1]:
                t[-1] += 1
                return t
            t.pop()
        return None


def required_pairs(specops):
    """reference relation, from the spec only"""
    regs = [set(o["m"]) for o in specops]
    mds = [set().union(*[meas_deps(e) for e in o.get("p", [])]) if o.get("p") else set() for o in specops]
    pairs = []
    for i in range(len(specops)):
        for j in range(i + 1, len(specops)):
            if regs[i] & regs[j] or regs[i] & mds[j] or mds[i] & regs[j]:
                pairs.append((i, j))
    return pairs


def execute(script, w):
    import networkx as nx
    import strawberryfields as sf
    from strawberryfields import ops as sfops
    import strawberryfields.program_utils as pu
    import strawberryfields.compilers.gbs as gbsmod
    import strawberryfields.compilers.xunitary as xumod

    specops = script["ops"]
    # the compiler by name (a new compiler object per compilation) or one compiler object the session keeps and uses for every compilation,
    # the foreign program's included
    gbs_compiler = gbsmod.GBS() if script.get("kept_compiler") else "gbs"
    if script.get("foreign_first") and len(specops) > 1:
        # the same functions were applied to another circuit (the reversed op list where legal, else a prefix) earlier in the process
        w.fault("foreign_activity:reorder_other_circuit")
        try:
            fprog = build_program({"n": script["n"], "ops": [o for o in specops[: max(1, len(specops) // 2)]]})
            pu.DAG_to_list(pu.list_to_DAG(fprog.circuit))
            pu.group_operations(fprog.circuit, lambda op: isinstance(op, sfops.MeasureFock))
            pu.optimize_circuit(fprog.circuit)
            try:
                fprog.compile(compiler=gbs_compiler)
            except pu.CircuitError:
                pass
        except Exception as ex:  # noqa
            w.log("foreign_error", exc=type(ex).__name__, msg=str(ex)[:200])
    prog = build_program({"n": script["n"], "ops": specops})
    if script.get("values_present"):
        # history: the program was run before (without a reset in between), so its registers still hold measured values - the same
        # objects are then compiled / optimised / grouped again.  Values appear in RegRef.val (that is where Measurement.apply stores them).
        w.fault("history:registers_hold_values_of_an_earlier_run")
        for rr_ in prog.reg_refs.values():
            rr_.val = 0.37
    seq = list(prog.circuit)
    if len(seq) != len(specops):
        raise RuntimeError("harness: %d commands for %d spec ops" % (len(seq), len(specops)))
    index = {id(c): i for i, c in enumerate(seq)}
    pairs = required_pairs(specops)
    mark = script["mark"]
    if mark["type"] == "class":
        mcls = getattr(sfops, mark["cls"])
        pred = lambda op: isinstance(op, mcls)  # noqa
    else:
        marked_ops = {id(seq[i].op) for i in mark["idx"] if i < len(seq)}
        pred = lambda op: id(op) in marked_ops  # noqa
    case_key = hashlib.sha256(json.dumps([script["n"], specops, mark], sort_keys=True).encode()).hexdigest()[:16]

    def check_lin(out, what, sub=None):
        """out must be the same Command objects as `sub` (default: all) with every required pair in order"""
        want = seq if sub is None else sub
        ids_out = [id(c) for c in out]
        if sorted(ids_out) != sorted(id(c) for c in want):
            unknown = [str(c) for c in out if id(c) not in index]
            lost = [index[id(c)] for c in want if id(c) not in set(ids_out)]
            dup = len(ids_out) - len(set(ids_out))
            w.violation("same-commands", what, {"lost_positions": lost, "unknown": unknown[:4], "duplicates": dup})
            return False
        pos = {index[i]: k for k, i in enumerate(ids_out)}
        for (i, j) in pairs:
            if i in pos and j in pos and pos[i] > pos[j]:
                w.violation("dependency-order", what, {"first": [i, specops[i]], "second": [j, specops[j]],
                                                       "out_positions": [pos[i], pos[j]]})
                return False
        return True

    def f_dag(sched_name):
        grid = pu.list_to_grid(seq)
        # each wire lists the commands acting on it, in order (extra entries for measured-parameter users are fine)
        for k, wire in grid.items():
            acting = [index[id(c)] for c in wire if id(c) in index and k in specops[index[id(c)]]["m"]]
            want = [i for i, o in enumerate(specops) if k in o["m"]]
            if acting != want:
                w.violation("grid-wire", "list_to_grid", {"wire": k, "got": acting, "want": want})
                return
        if set(grid) < {m for o in specops for m in o["m"]}:
            w.violation("grid-wire", "list_to_grid", {"missing_wires": sorted({m for o in specops for m in o["m"]} - set(grid))})
            return
        dag = pu.grid_to_DAG(grid)
        if sorted(index.get(id(c), -1) for c in dag.nodes) != list(range(len(seq))):
            w.violation("same-commands", "grid_to_DAG", {"nodes": sorted(index.get(id(c), -1) for c in dag.nodes)})
            return
        if not nx.is_directed_acyclic_graph(dag):
            w.violation("dependency-order", "grid_to_DAG", "cycle")
            return
        # every required pair must be connected by a path i -> j
        desc = {}
        for c in dag.nodes:
            desc[index[id(c)]] = {index[id(d)] for d in nx.descendants(dag, c)}
        for (i, j) in pairs:
            if j not in desc[i]:
                w.violation("dependency-order", "grid_to_DAG", {"no_path": [i, j], "first": specops[i], "second": specops[j]})
                return
        dag2 = pu.list_to_DAG(seq)
        out = pu.DAG_to_list(dag2)
        check_lin(out, "DAG_to_list")

    def f_group(sched_name):
        A, B, C = pu.group_operations(seq, pred)
        if not check_lin(list(A) + list(B) + list(C), "group_operations"):
            return
        bad = [index[id(c)] for c in list(A) + list(C) if pred(c.op)]
        if bad:
            w.violation("partition", "group_operations", {"marked_in_A_or_C": bad})
        if not B and C:
            w.violation("partition", "group_operations", {"B_empty_C_not": len(C)})
        if any(pred(c.op) for c in seq) and not B:
            w.violation("partition", "group_operations", "marked commands exist but B is empty")

    def f_optimize(sched_name):
        out = pu.optimize_circuit(seq)
        kept = [c for c in out if id(c) in index]
        ids = [id(c) for c in kept]
        if len(ids) != len(set(ids)):
            w.violation("same-commands", "optimize_circuit", "duplicate command in output")
            return
        pos = {index[i]: k for k, i in enumerate(ids)}
        for (i, j) in pairs:
            if i in pos and j in pos and pos[i] > pos[j]:
                w.violation("dependency-order", "optimize_circuit", {"first": [i, specops[i]], "second": [j, specops[j]]})
                return
        # nothing may vanish except by a merge: every input command that is not in the output must have had a
        # same-wire neighbour of the same family (cheap necessary condition: its class appears >= 2 times on that wire
        # or it is an identity-parameter gate)
        w.probes["optimize_changed"] += int(len(kept) != len(seq))

    verdicts = []

    def f_gbs(sched_name):
        try:
            c = prog.compile(compiler=gbs_compiler)
        except pu.CircuitError as ex:
            w.probes["gbs_rejected"] += 1
            # a compiler object has no memory: what it refuses now it refuses always, and the other way round
            verdicts.append(("rejected", str(ex)[:80]))
            if verdicts[0][0] != "rejected":
                w.violation("same-commands", "gbs-compile-verdict-changes-between-compilations", {"first": verdicts[0], "now": verdicts[-1], "kept_compiler_object": bool(script.get("kept_compiler"))})
            return
        verdicts.append(("accepted", ""))
        if verdicts[0][0] != "accepted":
            w.violation("same-commands", "gbs-compile-verdict-changes-between-compilations", {"first": verdicts[0], "now": verdicts[-1], "kept_compiler_object": bool(script.get("kept_compiler"))})
            return
        w.probes["gbs_accepted"] += 1
        out = c.circuit
        isfock = lambda cmd: isinstance(cmd.op, sfops.MeasureFock)  # noqa
        nonm = [x for x in seq if not isfock(x)]
        head = [x for x in out if not isfock(x)]
        tail = [x for x in out if isfock(x)]
        if any(id(x) not in index for x in head):
            # decomposed gates are rebuilt; identity is only promised for primitives -> compare through surviving ones
            head_known = [x for x in head if id(x) in index]
            sub = [x for x in nonm if id(x) in {id(y) for y in head_known}]
            check_lin(head_known, "gbs-compile", sub)
        else:
            check_lin(head, "gbs-compile", nonm)
        # a command that reads a photon count cannot precede the measurement that produces it - and the collected measurement is the last command
        last_, reads_fock = {}, {}
        for x in seq:  # source order: which measurement produced the value a command reads
            deps_ = {r_.ind for r_ in getattr(x.op, "measurement_deps", ())}
            if deps_:
                reads_fock[id(x)] = sorted(m_ for m_ in deps_ if last_.get(m_) == "MeasureFock")
            if isinstance(x.op, sfops.Measurement):
                for r_ in x.reg:
                    last_[r_.ind] = type(x.op).__name__
        for x in head:
            if reads_fock.get(id(x)):
                w.violation("dependency-order", "gbs-compile", {"command": str(x), "reads_photon_counts_of_modes": reads_fock[id(x)], "but_precedes": "the collected MeasureFock"})
                return
        if len(tail) != 1 or out[-1] is not tail[0]:
            w.violation("gbs-measure", "gbs-compile", {"n_fock_measurements": len(tail), "last_is_measurement": bool(out) and isfock(out[-1])})
            return
        ms = [m for o in specops if o["op"] == "MeasureFock" for m in o["m"]]
        got = [r_.ind for r_ in out[-1].reg]
        if sorted(ms) != got or len(set(ms)) != len(ms):
            w.violation("gbs-measure", "gbs-compile", {"measured_in_source": ms, "final_measurement": got})

    def f_xunitary(sched_name):
        try:
            c = prog.compile(compiler="Xunitary")
        except pu.CircuitError:
            w.probes["xunitary_rejected"] += 1
            return ["rejected"]
        w.probes["xunitary_accepted"] += 1
        return ["accepted", [str(x) for x in c.circuit]]

    # --- contract checker at the real call sites of group_operations inside the compilers
    def checked_group(seq_in, predicate):
        A, B, C = pu.group_operations(seq_in, predicate)
        w.probes["group_operations_callsite"] += 1
        allc = list(A) + list(B) + list(C)
        if sorted(id(x) for x in allc) != sorted(id(x) for x in seq_in):
            w.violation("same-commands", "group_operations@compiler", {"in": len(seq_in), "out": len(allc)})
        if any(predicate(x.op) for x in list(A) + list(C)):
            w.violation("partition", "group_operations@compiler", "marked operation in leading/trailing part")
        if not B and C:
            w.violation("partition", "group_operations@compiler", "B empty but C is not")
        # dependency order w.r.t. the sequence handed in
        posn = {id(x): k for k, x in enumerate(allc)}
        deps = [({r_.ind for r_ in x.reg}, {r_.ind for r_ in x.op.measurement_deps}) for x in seq_in]
        for i in range(len(seq_in)):
            for j in range(i + 1, len(seq_in)):
                if deps[i][0] & deps[j][0] or deps[i][0] & deps[j][1] or deps[i][1] & deps[j][0]:
                    if posn.get(id(seq_in[i]), -1) > posn.get(id(seq_in[j]), 1 << 30):
                        w.violation("dependency-order", "group_operations@compiler", {"i": i, "j": j, "a": str(seq_in[i]), "b": str(seq_in[j])})
                        return A, B, C
        return A, B, C

    if script["kind"] == "xunitary":
        funcs = [("xunitary", f_xunitary), ("gbs", f_gbs), ("group", f_group), ("dag", f_dag)]
    else:
        funcs = [("dag", f_dag), ("group", f_group), ("optimize", f_optimize), ("gbs", f_gbs)]

    seam = SortSeam(w)
    saved = (gbsmod.group_operations, xumod.group_operations)
    gbsmod.group_operations = checked_group
    xumod.group_operations = checked_group
    try:
        with seam:
            for fname, fn in funcs:
                outcomes = {}
                for sc in script["schedules"]:
                    mode = sc["mode"]
                    tapes = [None]
                    if mode == "enum":
                        tapes = [[]]
                    n_enum = 0
                    while tapes:
                        tape = tapes.pop()
                        seam.native = mode == "native"
                        seam.choices = seam.branching = 0
                        picker = None
                        if mode == "random":
                            rr = random.Random("c04s:%d:%s:%d" % (script["sseed"], fname, sc["k"]))
                            seam.pick = lambda cands: rr.randrange(len(cands))  # noqa
                        elif mode == "far":
                            seam.pick = lambda cands: max(range(len(cands)), key=lambda k: index.get(id(cands[k]), -1))  # noqa
                        elif mode == "near":
                            seam.pick = lambda cands: min(range(len(cands)), key=lambda k: index.get(id(cands[k]), 1 << 30))  # noqa
                        elif mode == "enum":
                            picker = TapePicker(tape)
                            seam.pick = picker
                        nv = len(w.violations)
                        w.steps += 1
                        try:
                            ret = fn(mode)
                        except Violation:
                            raise
                        except Exception as ex:  # noqa
                            import traceback
                            tb = traceback.extract_tb(ex.__traceback__)
                            inlib = [f for f in tb if "/strawberryfields/" in f.filename]
                            if not inlib or "/verif/" in tb[-1].filename:
                                raise
                            w.violation("no-unexpected-exception", fname, {"exc": type(ex).__name__, "msg": str(ex)[:200],
                                                                           "where": "%s:%d" % (tb[-1].filename, tb[-1].lineno)})
                            ret = None
                        w.log("sched", f=fname, mode=mode, choices=seam.choices, branching=seam.branching,
                              taken=(picker.taken if picker else None))
                        if fname == "xunitary" and ret is not None:
                            outcomes[json.dumps([mode, sc.get("k")])] = ret[0]
                        if seam.branching > 0 and not seam.native:
                            key = hashlib.sha256(("%s:%s:%s:%s" % (case_key, fname, mode, picker.taken if picker else sc.get("k"))).encode()).hexdigest()[:16]
                            w.nontrivial.add(key)
                        if len(w.violations) > nv:
                            for v in w.violations[nv:]:
                                v["detail"] = {"schedule": sc, "tape": picker.taken if picker else None, "info": v["detail"]}
                            return
                        if mode == "enum":
                            n_enum += 1
                            nt = picker.next_tape()
                            if nt is not None and n_enum < sc["cap"]:
                                tapes.append(nt)
                            elif nt is None:
                                w.probes["enum_complete"] += 1
                            else:
                                w.probes["enum_capped"] += 1
                if fname == "xunitary" and len(set(outcomes.values())) > 1:
                    w.probes["xunitary_schedule_dependent_acceptance"] += 1
    finally:
        gbsmod.group_operations, xumod.group_operations = saved


def features(script, v):
    return ["kind=" + script.get("kind", "?")]


def shrink(script):
    ops = script["ops"]
    for cand in ddmin_list(ops, 1):
        s = dict(script, ops=cand)
        if script["mark"]["type"] == "idx":
            # indices shift; re-map by object identity of the surviving spec dicts
            keep = [i for i, o in enumerate(ops) if any(o is c for c in cand)]
            remap = {old: new for new, old in enumerate(keep)}
            s["mark"] = {"type": "idx", "idx": sorted(remap[i] for i in script["mark"]["idx"] if i in remap)}
        if _legal(s):
            yield s
    # fewer schedules
    if len(script["schedules"]) > 1:
        for cand in ddmin_list(script["schedules"], 1):
            yield dict(script, schedules=cand)
    # simpler ops: drop dagger
    for i, o in enumerate(ops):
        if o.get("dag"):
            yield dict(script, ops=ops[:i] + [{k: v for k, v in o.items() if k != "dag"}] + ops[i + 1:])


def _legal(s):
    """front-end legality of a shrunk circuit: modes exist, New allocates the next index"""
    alive = set(range(s["n"]))
    nxt = s["n"]
    for o in s["ops"]:
        if o["op"] == "New":
            if o["m"] != list(range(nxt, nxt + o["n"])):
                return False
            alive |= set(o["m"])
            nxt += o["n"]
            continue
        if not set(o["m"]) <= alive:
            return False
        for e in o.get("p", []):
            if not meas_deps(e) <= alive:
                return False
        if o["op"] == "Del":
            alive -= set(o["m"])
    return True
