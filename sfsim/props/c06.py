"""C06 - measurements sample the Born distribution and condition the rest correctly.

The simulator owns the RNG seam under every measurement.  At the BackendSeam's pre-call hook it snapshots the backend's own
state, at the RNG seam it *validates the distribution handed over* (Born rule) and *chooses the outcome* (typical, tails,
forced rejection rounds), and at the post-call hook it compares the post-measurement state with the reference conditional
state for exactly that outcome.
"""
import cmath
import hashlib
import inspect
import json
import math
import random

import numpy as np

from .. import env  # noqa
from .. import refmodels as rm
from ..runner import ddmin_list
from ..seams import RandomSeam, FaultPlan
from ..session import SimEnv, SeededOutcomes
from ..spec import build_program
from ..world import Violation, HarnessError

ID = "C06"
LEVEL = "exploration"
BUDGET = {"quick": 300, "thorough": 1800}
JOB_TIMEOUT = 300
MINIMISE_S = {"quick": 60, "thorough": 240}
RULE = ("a case = one program: generated preparation circuit (entangled / displaced / mixed; bosonic: cat, Fock and GKP inputs; Fock: "
        "exactly representable states) followed by 1-3 measurements (homodyne at any angle, heterodyne, photon counting, threshold; any "
        "mode subset and order; with/without post-selection; hbar drawn per run), with every outcome chosen by the simulator at the RNG "
        "seam (and, in a fifth of the Gaussian runs, a refused multi-shot / post-selected request first); non-trivial: the pre-measurement state is not vacuum; for conditioning additionally the measured mode is correlated with "
        "another mode; distinct = distinct (program, outcome schedule) digests")
REAL = ["strawberryfields.ops Measurement classes (MeasureHomodyne/Heterodyne/Fock/Threshold incl. select, dark_counts, hbar scaling)",
        "strawberryfields.engine (sample collation, samples_dict, RegRef.val)",
        "Gaussian backend measure_dyne/post_select_*; Fock backend measure_fock/measure_homodyne/project_reset; bosonic backend measure_dyne (rejection sampler), "
        "post_select_generaldyne, measure_threshold"]
STUB = ["numpy.random.* : arguments validated, outcome chosen by the simulator (a native-RNG batch keeps the real functions and only records)",
        "thewalrus hafnian_sample_state / torontonian_sample_state (Gaussian backend photon counting): arguments validated, outcome chosen"]
ASSUMPTIONS = [
    "reference conditional states: Schur complement + peak re-weighting (phase space), projector contraction (Fock) - my own NumPy code",
    "Gaussian/bosonic homodyne is modelled by the library as a general-dyne measurement with measurement covariance diag(eps^2, 1/eps^2), eps = 2e-4 (documented); the reference uses the same model",
    "Fock homodyne conditioning is exact in the library's method only for product states or outcome 0; only those cases are compared exactly, otherwise structural facts",
    "the Gaussian backend documents leaving the state untouched after photon counting / threshold detection (warns) - accepted",
    "mixture states are compared through their characteristic function at 10 seeded points (order/merging of peaks is not prescribed)",
]

EPS = 0.0002


def warm(tier):
    sf = env.import_sf()
    from .. import warmup
    warmup.warm_engines(sf)
    warmup.clear_symbolic_caches()


def batches(tier):
    if tier == "quick":
        return [
            {"name": "dyne-gaussian", "runs": 3200, "weight": 2},
            {"name": "dyne-bosonic", "runs": 2400, "weight": 3, "seed_offset": 100000},
            {"name": "xsel", "runs": 1400, "weight": 2, "seed_offset": 200000},
            {"name": "fock-count", "runs": 1000, "weight": 3, "seed_offset": 300000},
            {"name": "fock-hom", "runs": 192, "weight": 4, "seed_offset": 400000},
            {"name": "gauss-count", "runs": 1200, "weight": 1, "seed_offset": 500000},
            {"name": "collation", "runs": 1800, "weight": 2, "seed_offset": 600000},
            {"name": "native-rng", "runs": 400, "weight": 1, "seed_offset": 700000},
        ]
    return [
        {"name": "dyne-gaussian", "runs": 40000, "weight": 2},
        {"name": "dyne-bosonic", "runs": 30000, "weight": 4, "seed_offset": 100000},
        {"name": "xsel", "runs": 15000, "weight": 2, "seed_offset": 200000},
        {"name": "fock-count", "runs": 10000, "weight": 3, "seed_offset": 300000},
        {"name": "fock-hom", "runs": 1500, "weight": 5, "seed_offset": 400000},
        {"name": "gauss-count", "runs": 10000, "weight": 1, "seed_offset": 500000},
        {"name": "collation", "runs": 20000, "weight": 2, "seed_offset": 600000},
        {"name": "native-rng", "runs": 5000, "weight": 1, "seed_offset": 700000},
    ]


def rnd(r, lo, hi):
    return round(r.uniform(lo, hi), 3)


# ------------------------------------------------------------------------------------------------
# generation
# ------------------------------------------------------------------------------------------------
def gen_gauss_prep(r, n, L=None):
    ops = []
    for _ in range(L if L is not None else r.randint(1, 7)):
        x = r.random()
        if x < 0.28:
            ops.append({"op": "Sgate", "p": [rnd(r, -0.8, 0.8), rnd(r, 0, 6.2)], "m": [r.randrange(n)]})
        elif x < 0.45:
            ops.append({"op": "Dgate", "p": [rnd(r, 0, 1.0), rnd(r, 0, 6.2)], "m": [r.randrange(n)]})
        elif x < 0.75 and n > 1:
            g = r.choice(["BSgate", "BSgate", "S2gate"])
            ops.append({"op": g, "p": [rnd(r, 0.1, 1.5) if g == "BSgate" else rnd(r, -0.6, 0.6), rnd(r, 0, 6.2)], "m": r.sample(range(n), 2)})
        elif x < 0.85:
            ops.append({"op": "LossChannel", "p": [rnd(r, 0.3, 1)], "m": [r.randrange(n)]})
        elif x < 0.92:
            ops.append({"op": "Thermal", "p": [rnd(r, 0, 0.8)], "m": [r.randrange(n)]})
        else:
            ops.append({"op": "Rgate", "p": [rnd(r, -3, 3)], "m": [r.randrange(n)]})
    return ops


def gen_nongauss_inputs(r, n):
    """bosonic-only non-Gaussian inputs, first operation on their mode"""
    ops = []
    for m in range(n):
        x = r.random()
        if len(ops) >= 2:
            break  # keeps the number of peaks (product over modes) below a few hundred
        if x < 0.35:
            rep = r.choice(["complex", "real"])
            if rep == "real" and any(o.get("kw", {}).get("representation") == "real" for o in ops):
                rep = "complex"  # a real-representation cat has ~20 peaks
            ops.append({"op": "Catstate", "p": [rnd(r, 0.4, 1.6), rnd(r, 0, 3.1), r.choice([0, 1])],
                        "kw": {"representation": rep}, "m": [m]})
        elif x < 0.5:
            # Fock(2) as a difference of Gaussians has weights ~1e5: at most one, and only next to no other non-Gaussian input
            ops.append({"op": "Fock", "p": [2 if (not ops and r.random() < 0.25) else 1], "m": [m]})
            if ops[-1]["p"][0] == 2:
                break
        elif x < 0.55 and n <= 2 and not ops and r.random() < 0.3:
            ops.append({"op": "GKP", "p": [[rnd(r, 0, 3.1), rnd(r, 0, 3.1)], rnd(r, 0.3, 0.4)], "m": [m]})
            break
    return ops


def gen_meas(r, n, kinds, max_meas=2, allow_select=True):
    out = []
    modes = list(range(n))
    r.shuffle(modes)
    for m in modes[: r.randint(1, min(max_meas, n))]:
        k = r.choice(kinds)
        e = {"kind": k, "m": m, "z": r.choice([0, 1, -1, 2, -2, 4, -6]), "z2": r.choice([0, 1, -2, 3]),
             "select": allow_select and k != "thr" and r.random() < 0.3}
        if k == "hom":
            e["phi"] = r.choice([0.0, round(math.pi / 2, 6), rnd(r, -3.2, 3.2), rnd(r, -3.2, 3.2)])
        if k == "thr":
            e["outcome"] = r.choice([0, 1])
        out.append(e)
    return out


def generate(seed, tier, batch):
    r = random.Random("c06:%d" % seed)
    hbar = r.choice([0.5, 1.0, 1.7, 2.0, 2.0])
    if batch in ("dyne-gaussian", "dyne-bosonic", "native-rng"):
        backend = "gaussian" if batch == "dyne-gaussian" else ("bosonic" if batch == "dyne-bosonic" else r.choice(["gaussian", "bosonic"]))
        n = r.randint(1, 4 if backend == "gaussian" else 3)
        prep = []
        if backend == "bosonic" and r.random() < 0.6:
            prep += gen_nongauss_inputs(r, n)
        prep += gen_gauss_prep(r, n)
        kinds = ["hom", "hom", "het"] + (["thr"] if backend == "bosonic" else [])
        return {"kind": "dyne", "backend": backend, "hbar": hbar, "n": n, "prep": prep, "meas": gen_meas(r, n, kinds),
                "rejections": r.choice([0, 0, 1, 3, 6]) if backend == "bosonic" else 0, "proposal": r.choice(["target", "peak"]),
                "native": batch == "native-rng", "tape": seed, "refused_first": backend == "gaussian" and batch != "native-rng" and r.random() < 0.2,
                "refused_variant": r.choice(["kw_meas", "stored_gates_select", "kw_gates_select"]), "refused_select": random.Random("c06r:%d" % seed).choice([0.2, -0.4, 0.0])}
    if batch == "xsel":
        n = r.randint(2, 4)
        prep = gen_gauss_prep(r, n, r.randint(2, 7))
        meas = gen_meas(r, n, ["hom", "het"], max_meas=2)
        for m in meas:
            m["select"] = True
        return {"kind": "xsel", "hbar": hbar, "n": n, "prep": prep, "meas": meas, "tape": seed, "share_program": r.random() < 0.8, "rerun": r.random() < 0.5}
    if batch == "fock-count":
        return gen_fock(r, seed, hbar, "count")
    if batch == "fock-hom":
        return gen_fock(r, seed, hbar, "hom")
    if batch == "gauss-count":
        n = r.randint(1, 4)
        prep = gen_gauss_prep(r, n)
        if r.random() < 0.25:
            # exact special values: every displacement is along p only (Zgate, Dgate(r, +-pi/2)), squeezing axes and beamsplitters keep it
            # there - the x means of the state are exactly zero while the state is displaced
            prep = []
            for _ in range(r.randint(1, 6)):
                x = r.random()
                m = r.randrange(n)
                if x < 0.3:
                    prep.append({"op": "Zgate", "p": [rnd(r, -1.2, 1.2)], "m": [m]})
                elif x < 0.5:
                    prep.append({"op": "Dgate", "p": [rnd(r, 0.2, 1.0), r.choice([round(math.pi / 2, 12), -round(math.pi / 2, 12)])], "m": [m]})
                elif x < 0.7:
                    prep.append({"op": "Sgate", "p": [rnd(r, -0.6, 0.6), r.choice([0.0, round(math.pi, 12)])], "m": [m]})
                elif x < 0.85 and n > 1:
                    prep.append({"op": "BSgate", "p": [rnd(r, 0.1, 1.5), 0.0], "m": r.sample(range(n), 2)})
                else:
                    prep.append({"op": "LossChannel", "p": [rnd(r, 0.3, 1)], "m": [m]})
        ms = r.sample(range(n), r.randint(1, n))
        kind = r.choice(["fock", "fock", "thr"])
        dark = [rnd(r, 0, 1.5) for _ in ms] if kind == "fock" and r.random() < 0.4 else None
        rg_ = random.Random("c06g:%d" % seed)
        gsel = [rg_.choice([0, 1]) if kind == "thr" else rg_.choice([0, 1, 2]) for _ in ms] if (dark is None and rg_.random() < 0.15) else None
        return {"kind": "gauss-count", "hbar": hbar, "n": n, "prep": prep, "mk": kind, "modes": ms, "dark": dark,
                "shots": r.choice([1, 1, 2, 4]) if gsel is None else 1, "tape": seed, "gc_select": gsel}
    if batch == "collation":
        return gen_collation(r, seed, hbar)
    raise KeyError(batch)


def gen_fock(r, seed, hbar, what):
    n = r.randint(1, 3)
    D = r.choice([5, 6]) if what == "count" else r.choice([5, 6])
    prep, tot = [], 0
    for m in range(n):
        k = r.randint(0, min(2, D - 1 - tot))
        tot += k
        prep.append({"op": "Fock", "p": [k], "m": [m]})
    product = what == "hom" and r.random() < 0.4
    for _ in range(r.randint(1, 5)):
        x = r.random()
        if x < 0.55 and n > 1 and not product:
            prep.append({"op": "BSgate", "p": [rnd(r, 0.1, 1.5), rnd(r, 0, 6.2)], "m": r.sample(range(n), 2)})
        elif x < 0.8:
            prep.append({"op": "Kgate", "p": [rnd(r, -1, 1)], "m": [r.randrange(n)]})
        else:
            prep.append({"op": "Rgate", "p": [rnd(r, -3, 3)], "m": [r.randrange(n)]})
    s = {"kind": "fock-" + what, "hbar": hbar, "n": n, "cutoff": D, "pure": r.random() < 0.6, "prep": prep, "product": product, "tape": seed,
         "foreign_first": r.random() < 0.3}
    if what == "count":
        ms = r.sample(range(n), r.randint(1, n))
        s["modes"] = ms
        s["pick"] = r.choice(["random", "rarest", "likeliest"])
        s["select"] = [True for _ in ms] if r.random() < 0.3 else None  # the Fock backend accepts only fully numeric select lists
        s["u"] = round(r.random(), 6)
        s["dark"] = [rnd(r, 0.1, 1.5) for _ in ms] if (s["select"] is None and r.random() < 0.3) else None
    else:
        s["mode"] = r.randrange(n)
        ra = random.Random("c06a:%d" % seed)
        if ra.random() < 0.5:
            # coherences between number states: the x_phi and x_-phi distributions of the measured mode differ (a state diagonal in the number
            # basis cannot tell the two apart).  The reference works from the backend's own (truncated) pre-measurement tensor.
            for _ in range(ra.randint(1, 2)):
                g = ra.choice(["Dgate", "Dgate", "Sgate", "Zgate"])
                prep.append({"op": g, "p": {"Dgate": [rnd(ra, 0.2, 0.6), rnd(ra, 0.3, 6.0)], "Sgate": [rnd(ra, 0.15, 0.4), rnd(ra, 0.3, 6.0)], "Zgate": [rnd(ra, -0.8, 0.8)]}[g],
                             "m": [s["mode"]]})
        s["phi"] = r.choice([0.0, rnd(r, -3, 3), rnd(r, -3, 3)])
        s["x"] = r.choice([0.0, 0.0, rnd(r, -2.5, 2.5), rnd(r, -1, 1)])
        s["select"] = r.random() < 0.3
    return s


def gen_collation(r, seed, hbar):
    backend = r.choice(["gaussian", "gaussian", "bosonic", "fock"])
    n = r.randint(2, 4 if backend != "fock" else 3)
    ops = []
    if backend == "fock":
        # number states keep Fock counting outcomes attributable; homodyne outcomes are injected
        for m in range(n):
            ops.append({"op": "Fock", "p": [r.randint(0, 2)], "m": [m]})
    else:
        ops += gen_gauss_prep(r, n, r.randint(1, 4))
    nmeas = r.randint(1, 4)
    for _ in range(nmeas):
        if backend == "fock":
            if r.random() < 0.6:
                ms = r.sample(range(n), r.randint(1, n))
                ops.append({"op": "MeasureFock", "m": ms})
            else:
                ops.append({"op": "MeasureHomodyne", "p": [rnd(r, -3, 3)], "m": [r.randrange(n)]})
            if r.random() < 0.4:
                ops.append({"op": "Fock", "p": [r.randint(0, 2)], "m": [r.randrange(n)]})
        else:
            k = r.choice(["MeasureHomodyne", "MeasureHomodyne", "MeasureHeterodyne", "MeasureX", "MeasureP"])
            o = {"op": k, "m": [r.randrange(n)]}
            if k == "MeasureHomodyne":
                o["p"] = [rnd(r, -3, 3)]
            ops.append(o)
            if r.random() < 0.4:
                ops.append({"op": "Sgate", "p": [rnd(r, -0.5, 0.5), 0.0], "m": [r.randrange(n)]})
    shots = 1
    if backend == "bosonic" and r.random() < 0.3 and all(o["op"] != "MeasureHeterodyne" or True for o in ops):
        shots = r.choice([2, 3])
    return {"kind": "collation", "backend": backend, "hbar": hbar, "n": n, "ops": ops, "shots": shots, "cutoff": 5, "tape": seed}


# ------------------------------------------------------------------------------------------------
# the seam oracle for phase-space backends
# ------------------------------------------------------------------------------------------------
class Spy:
    """returned by the simulated numpy.random.random(): captures what the rejection loop multiplies it with (the envelope
    at the proposal) and compares it against (the density at the proposal); the scheduler decides accept / reject"""
    __array_ufunc__ = None
    __array_priority__ = 1e9

    def __init__(self, oracle):
        self.o = oracle

    def _val(self, x):
        x = np.asarray(x)
        return complex(x.ravel()[0]) if x.size else complex("nan")

    def __mul__(self, other):
        self.o.captured["ub"] = self._val(other)
        return self

    __rmul__ = __mul__

    def _cmp(self, other):
        self.o.captured["pdf"] = self._val(other)
        return self.o.decide_accept()

    def __lt__(self, other):
        return self._cmp(other)

    def __le__(self, other):
        return self._cmp(other)

    def __gt__(self, other):  # reflected form of  density > u*envelope
        return self._cmp(other)

    def __ge__(self, other):
        return self._cmp(other)


class DyneOracle:
    """pre/post hooks + RNG handler for measure_homodyne / measure_heterodyne / measure_threshold on Gaussian and bosonic"""

    def __init__(self, w, script, backend, plan_for_call, fallback):
        self.w, self.script, self.backend = w, script, backend
        self.plan_for_call = plan_for_call  # callable(index of measurement event) -> meas spec
        self.fallback = fallback
        self.cur = None
        self.captured = {}
        self.n_meas = 0
        self.results = []  # per measurement event: dict(outcome=..., kind=...)
        self.feats = ["backend=" + backend]

    # ---- BackendSeam
    def on_call(self, phase, be, name, a, k, out):
        if name not in ("measure_homodyne", "measure_heterodyne", "measure_threshold"):
            return
        import strawberryfields as sf

        real = getattr(type(be).__mro__[1], name)
        ba = inspect.signature(real).bind(be, *a, **k)
        ba.apply_defaults()
        args = ba.arguments
        if phase == "pre":
            spec = self.plan_for_call(self.n_meas)
            pre = rm.snapshot(be.state(), sf.hbar)
            modes = args.get("mode", args.get("modes"))
            mode = int(modes[0]) if isinstance(modes, (list, tuple, np.ndarray)) else int(modes)
            kind = {"measure_homodyne": "hom", "measure_heterodyne": "het", "measure_threshold": "thr"}[name]
            phi = float(args.get("phi", 0.0)) if kind == "hom" else 0.0
            mc = np.diag([EPS ** 2, 1 / EPS ** 2]) if kind == "hom" else np.eye(2)
            rot = rm.rotate(pre, mode, -phi) if kind == "hom" else pre
            ref = rm.DyneRef(rot, mode, mc)
            select = args.get("select")
            self.cur = {"spec": spec, "kind": kind, "mode": mode, "phi": phi, "pre": pre, "ref": ref, "select": select, "y": None,
                        "proposals": 0, "rejections_left": self.script.get("rejections", 0), "consts": [], "shots": args.get("shots", 1)}
            nonvac = not (np.allclose(pre.mu, 0, atol=1e-9) and np.allclose(pre.cov, np.eye(2 * pre.n)[None], atol=1e-9) and len(pre.w) == 1)
            corr = bool(np.max(np.abs(pre.cov[:, ref.A][:, :, ref.B])) > 1e-6) if ref.A else False
            self.cur["nonvac"], self.cur["corr"] = nonvac, corr
            if kind == "thr":
                self.cur["p0"] = rm.vacuum_fidelity(pre, mode)
            if select is not None:
                # post-selection: the outcome is given; units: backend API receives select / sqrt(hbar/2) for homodyne, alpha for heterodyne
                if kind == "hom":
                    self.cur["y"] = np.array([float(select), None], dtype=object)
                else:
                    self.cur["y"] = np.array([2 * complex(select).real, 2 * complex(select).imag])
            if select is not None and len(pre.w) > 1:
                # a post-selected value is dictated by the program, not by the scheduler: when its density is (nearly) zero - the centre of
                # a Fock state, a zero of a cat-state fringe - conditioning on it is ill-posed (the library divides by ~0); not a case to decide
                yy = np.array([float(self.cur["y"][0]), float(np.real(ref.mean_cov()[0][1]))]) if kind == "hom" else np.array(self.cur["y"], dtype=float)
                base = np.real(ref.muB[:: max(1, len(ref.muB) // 32)])
                sg = np.sqrt(np.clip(np.real(np.diagonal(ref.S[0])), 1e-12, None))
                pts = []
                for p_ in base:
                    for dx in (0.0, 1.0, -1.0, 2.0, -2.0):
                        for dp in ((0.0,) if kind == "hom" else (0.0, 1.0, -1.0)):
                            pts.append([p_[0] + dx * sg[0], yy[1] if kind == "hom" else p_[1] + dp * sg[1]])
                top = float(np.max(np.real(ref.density_many(np.array(pts)))))
                if float(np.real(ref.density(yy))) < 1e-2 * top:
                    self.w.probes["skipped_near_zero_density_postselection"] += 1
                    self.cur = None
                    # the run ends here: the library would divide by ~0 and every later measurement would start from a NaN state
                    raise Violation("scheduler", "ill-posed-postselection", "dictated outcome has (nearly) zero density")
            self.w.log("measure", kind=kind, mode=mode, phi=phi, select=select is not None, peaks=len(pre.w))
            return
        # ---- post
        cur, self.cur = self.cur, None
        self.n_meas += 1
        if cur is None:
            return
        if cur.get("skip"):
            self.results.append({"kind": cur["kind"], "mode": cur["mode"], "value": None, "skipped": True})
            return
        post = rm.snapshot(be.state(), sf.hbar)
        y = cur["y"]
        kind = cur["kind"]
        feats = self.feats + ["kind=" + kind] + (["select"] if cur["select"] is not None else []) + (["multi-peak"] if len(cur["pre"].w) > 1 else [])
        if kind == "thr":
            oc = cur.get("outcome")
            if oc is None:
                self.w.violation("born", "threshold-no-draw", "measure_threshold returned without drawing an outcome", feats)
                return
            got = int(np.asarray(out).ravel()[0])
            if got != oc:
                self.w.violation("collation", "threshold-returned-value", {"drawn": oc, "returned": got}, feats)
                return
            refpost, _ = rm.threshold_conditional(cur["pre"], cur["mode"], oc)
            d = rm.mixtures_close(post, refpost, random.Random(self.w.seed + self.n_meas), tol=2e-6)
            if d:
                self.w.violation("conditioning", "threshold-post-state", {"outcome": oc, "mode": cur["mode"], "diff": d}, feats)
            self.results.append({"kind": kind, "mode": cur["mode"], "value": oc})
            self._count(cur, feats)
            return
        if y is None or (kind == "hom" and y[1] is None and cur["select"] is None):
            self.w.violation("born", "no-draw", "the measurement returned without asking the RNG for an outcome", feats)
            return
        if kind == "hom" and y[1] is None:
            # post-selected homodyne: the conjugate outcome the backend used (Gaussian draws it, bosonic uses 0); both are legal -
            # its influence is O(eps^2); use the mean
            y = np.array([float(y[0]), float(np.real(cur["ref"].mean_cov()[0][1])) if cur.get("yp") is None else cur["yp"]])
        y = np.array([complex(v) for v in y]).real.astype(float) if True else y
        # returned value (backend API units: hbar-independent for homodyne, alpha for heterodyne)
        o = np.asarray(out)
        if kind == "hom":
            got = float(np.real(o.ravel()[0]))
            if abs(got - y[0]) > 1e-9 * max(1, abs(y[0])):
                self.w.violation("collation", "homodyne-returned-value", {"chosen": y[0], "returned": got}, feats)
                return
            val = y[0]
        else:
            got = complex(o.ravel()[0])
            want = complex(y[0], y[1]) / 2
            if abs(got - want) > 1e-9 * max(1, abs(want)):
                self.w.violation("collation", "heterodyne-returned-value", {"chosen": want, "returned": got}, feats)
                return
            val = want
        refpost = cur["ref"].conditional(y)
        scale = 1 + abs(cur["spec"].get("z", 0)) + float(np.max(np.abs(cur["pre"].cov)))
        d = rm.mixtures_close(post, refpost, random.Random(self.w.seed + self.n_meas), tol=2e-6 * scale)
        if d:
            self.w.violation("conditioning", "dyne-post-state", {"kind": kind, "mode": cur["mode"], "phi": cur["phi"], "y": y, "select": cur["select"] is not None,
                                                                 "peaks": len(cur["pre"].w), "diff": d}, feats)
            return
        # measured mode is vacuum and uncorrelated (explicit, on top of the state comparison)
        red = post.reduced([cur["mode"]])
        if abs(red.chi(np.array([0.7, -0.4])) - math.exp(-0.5 * (0.49 + 0.16))) > 1e-6 + 1e-9 * float(np.sum(np.abs(post.w))):
            self.w.violation("conditioning", "measured-mode-not-vacuum", {"mode": cur["mode"]}, feats)
            return
        self.results.append({"kind": kind, "mode": cur["mode"], "value": val, "y": y})
        self._count(cur, feats)

    def _count(self, cur, feats):
        self.w.probes["measurement_events"] += 1
        if cur["nonvac"]:
            self.w.probes["nonvacuum_prestate"] += 1
        if cur["corr"]:
            self.w.probes["correlated_measured_mode"] += 1
        if len(cur["pre"].w) > 1:
            self.w.probes["multi_peak_prestate"] += 1
        if cur["proposals"] >= 3:
            self.w.probes["bosonic_sampler_rejected_ge3"] += 1

    # ---- accept / reject decisions of the bosonic rejection loop
    def decide_accept(self):
        cur = self.cur
        cap, self.captured = self.captured, {}
        x = cur["last_proposal"]
        feats = self.feats + ["kind=" + cur["kind"], "rejection-sampler"]
        ref = cur["ref"]
        dens = ref.density(x)
        pdf = cap.get("pdf")
        ub = cap.get("ub")
        if pdf is None or ub is None:
            raise HarnessError("rejection loop did not use the spy as expected: %s" % cap)
        cancel = 1e-15 * ref.abs_density(x)  # double-precision rounding of a sum with cancelling terms (Fock states: 10+ digits cancel)
        if abs(pdf - dens) > 1e-7 * max(1.0, abs(dens)) + cancel or abs(pdf.imag) > 1e-8 * max(1.0, abs(pdf)) + cancel:
            self.w.violation("born", "bosonic-density-at-proposal", {"x": x, "library": pdf, "reference": dens, "kind": cur["kind"]}, feats)
            raise Violation("born", "bosonic-density-at-proposal", "stop")
        if dens.real > ub.real * (1 + 1e-9) + 1e-12 + cancel:
            self.w.violation("born", "bosonic-envelope-below-density", {"x": x, "density": dens.real, "envelope": ub.real}, feats)
            raise Violation("born", "bosonic-envelope-below-density", "stop")
        # envelope must be a constant multiple of the proposal density  sum_j p_j N(x; Re mu_j, S_j)  the loop draws from
        g = cur.get("proposal_density")
        if g is not None:
            gx = g(x)
            if gx > 1e-300:
                cur["consts"].append(ub.real / gx)
                c0 = cur["consts"][0]
                if abs(cur["consts"][-1] - c0) > 1e-6 * abs(c0):
                    self.w.violation("born", "bosonic-envelope-not-proportional-to-proposal", {"ratios": cur["consts"][-4:]}, feats)
                    raise Violation("born", "bosonic-envelope-not-proportional-to-proposal", "stop")
        cur["proposals"] += 1
        self.w.probes["bosonic_proposals"] += 1
        if cur["rejections_left"] > 0:
            cur["rejections_left"] -= 1
            self.w.fault("rng_force_reject")
            return False
        if dens.real <= 1e-3 * ub.real:
            # a point a correct sampler accepts with probability < 1e-3: conditioning on it is numerically ill-posed for
            # mixtures with cancelling weights (density ~ 0 at the centre of a Fock state); let the loop propose again
            self.w.probes["bosonic_natural_reject"] += 1
            if cur["proposals"] > 12:
                self.w.probes["scheduler_gave_up_no_acceptable_proposal"] += 1
                raise Violation("scheduler", "no-acceptable-proposal", "scheduler found no proposal of non-negligible density in 12 rounds")
            return False
        cur["y"] = np.array(x, dtype=float)
        return True

    # ---- RNG seam
    def rng(self, name, args, kwargs):
        cur = self.cur
        if cur is None:
            return None  # not inside a measurement: fall back to the seeded outcome rules
        kind, ref, spec = cur["kind"], cur["ref"], cur["spec"]
        feats = self.feats + ["kind=" + kind]
        m, S = ref.mean_cov()

        def target():
            z, z2 = spec.get("z", 0), spec.get("z2", 0)
            if kind == "hom":
                return np.array([m[0] + z * math.sqrt(max(S[0, 0], 1e-12)), m[1]])
            return np.array([m[0] + z * math.sqrt(S[0, 0]), m[1] + z2 * math.sqrt(S[1, 1])])

        if kind == "thr":
            if name != "choice":
                return None
            p = np.asarray(kwargs.get("p", args[3] if len(args) > 3 else None), dtype=float)
            a = list(np.asarray(args[0]).tolist())
            if a != [0, 1] or abs(p[0] - cur["p0"]) > 1e-8 + 1e-9 * float(np.sum(np.abs(cur["pre"].w))) or abs(p.sum() - 1) > 1e-9:
                self.w.violation("born", "threshold-probabilities", {"handed_to_rng": p.tolist(), "reference_p0": cur["p0"], "values": a}, feats)
                raise Violation("born", "threshold-probabilities", "stop")
            oc = spec.get("outcome", 0)
            if p[oc] <= 1e-3:
                oc = 1 - oc  # an outcome of (nearly) zero probability: conditioning on it is ill-posed
            cur["outcome"] = oc
            self.w.fault("rng_chosen_outcome")
            size = kwargs.get("size")
            return np.array([oc]) if size else oc
        if self.backend == "gaussian":
            if name == "multivariate_normal":
                mean = np.asarray(args[0], dtype=float)
                cov = np.asarray(args[1], dtype=float)
                if mean.shape != (2,) or not (np.allclose(mean, m, atol=1e-7 * (1 + np.abs(m).max())) and np.allclose(cov, S, rtol=1e-7, atol=1e-7)):
                    self.w.violation("born", "gaussian-dyne-distribution", {"kind": kind, "mean": mean, "cov": cov, "ref_mean": m, "ref_cov": S}, feats)
                    raise Violation("born", "gaussian-dyne-distribution", "stop")
                y = target()
                cur["y"] = y
                if abs(spec.get("z", 0)) >= 4:
                    self.w.fault("rng_tail")
                size = kwargs.get("size", args[2] if len(args) > 2 else None)
                return np.tile(y, (int(size), 1)) if size else y
            if name == "normal" and cur["select"] is not None and kind == "hom":
                loc = float(args[0] if args else kwargs.get("loc", 0.0))
                sc = float(args[1] if len(args) > 1 else kwargs.get("scale", 1.0))
                if abs(loc - m[1]) > 1e-6 * (1 + abs(m[1])):
                    self.w.violation("born", "gaussian-postselect-conjugate-mean", {"loc": loc, "ref": m[1]}, feats)
                    raise Violation("born", "gaussian-postselect-conjugate-mean", "stop")
                cur["yp"] = loc
                return loc
            return None
        # ---- bosonic rejection sampler: choice -> multivariate_normal -> random
        if name == "choice":
            a = np.arange(int(args[0])) if isinstance(args[0], (int, np.integer)) else np.asarray(args[0])
            p = np.asarray(kwargs.get("p"), dtype=float)
            if not np.isfinite(p).all() or abs(p.sum() - 1) > 1e-9 or (p < -1e-15).any():
                self.w.violation("born", "bosonic-proposal-weights", {"p": p.tolist()}, feats)
                raise Violation("born", "bosonic-proposal-weights", "stop")
            cur["choice_a"], cur["choice_p"] = a, p
            # pick a peak: the likeliest, or per schedule another one with non-zero probability
            order = np.argsort(-p)
            nz = [i for i in order if p[i] > 1e-12]
            pick = nz[(cur["proposals"] + spec.get("z2", 0)) % len(nz)] if self.script.get("proposal") == "peak" else nz[0]
            cur["picked"] = int(a[pick])
            size = kwargs.get("size")
            return np.array([a[pick]]) if size else a[pick]
        if name == "multivariate_normal":
            mean = np.asarray(args[0])
            cov = np.asarray(args[1])
            j = cur.get("picked")
            if j is None:
                raise HarnessError("bosonic sampler drew a point without choosing a peak")
            want_mean = np.real(ref.muB[j])
            want_cov = np.real(ref.S[j])
            if not (np.allclose(mean, want_mean, atol=1e-7 * (1 + np.abs(want_mean).max())) and np.allclose(cov, want_cov, rtol=1e-7, atol=1e-7)):
                self.w.violation("born", "bosonic-proposal-peak", {"peak": j, "mean": mean, "cov": cov, "ref_mean": want_mean, "ref_cov": want_cov}, feats)
                raise Violation("born", "bosonic-proposal-peak", "stop")
            if "proposal_density" not in cur:
                a, p = cur["choice_a"], cur["choice_p"]
                mus = [np.real(ref.muB[int(i)]) for i in a]
                Ss = [np.real(ref.S[int(i)]) for i in a]

                def g(x, p=p, mus=mus, Ss=Ss):
                    return float(sum(pi * np.real(rm.gauss_pdf(x, mu, S_)) for pi, mu, S_ in zip(p, mus, Ss) if pi > 0))

                cur["proposal_density"] = g
            sig = np.sqrt(np.clip(np.diag(want_cov), 0, None)) * np.array([1.0, 0.0 if kind == "hom" else -0.8])
            if cur["rejections_left"] > 0:
                # a round the scheduler will reject anyway: propose anywhere around the chosen peak (any point is a legal proposal;
                # density and envelope are validated there)
                zz = [0.0, 1.0, -1.5, 0.5, 2.0, -0.7, 1.4, -2.2][(cur["proposals"] + abs(spec.get("z", 0))) % 8]
                x = want_mean + zz * sig
            else:
                # the round meant to be accepted: among the schedule's candidate points take one of non-negligible density
                # (interference fringes of cat states have zeros; conditioning on a zero-density outcome is ill-posed)
                cands = [target()] if self.script.get("proposal") != "peak" else []
                for zz in (0.0, 1.0, -1.5, 0.5, 2.0, -0.7):
                    cands.append(want_mean + zz * sig)
                others = np.real(ref.muB[:: max(1, len(ref.muB) // 24)])
                dens_c = np.real(ref.density_many(np.array(cands)))
                dens_o = np.real(ref.density_many(others))
                top = max(float(dens_c.max()), float(dens_o.max()))
                good = [i for i, dv in enumerate(dens_c) if dv >= 0.2 * top]
                if good:
                    x = cands[good[(abs(spec.get("z", 0)) + cur["proposals"]) % len(good)]]
                else:
                    x = others[int(np.argmax(dens_o))]
            cur["last_proposal"] = np.array(x, dtype=float)
            return np.array(x, dtype=float)
        if name == "random":
            return Spy(self)
        return None


# ------------------------------------------------------------------------------------------------
def build_meas_ops(script, results_so_far=None):
    import strawberryfields as sf

    ops = []
    s = math.sqrt(script["hbar"] / 2)
    for i, me in enumerate(script["meas"]):
        kw = {}
        if me["kind"] == "hom":
            if me.get("select"):
                kw["select"] = round(me["z"] * 0.35 * s, 6)
            ops.append({"op": "MeasureHomodyne", "p": [me["phi"]], "m": [me["m"]], "kw": kw})
        elif me["kind"] == "het":
            if me.get("select"):
                kw["select"] = ["c", round(me["z"] * 0.2, 6), round(me["z2"] * 0.25, 6)]
            ops.append({"op": "MeasureHeterodyne", "m": [me["m"]], "kw": kw, "fresh": True})
        else:
            ops.append({"op": "MeasureThreshold", "m": [me["m"]], "fresh": True})
    return ops


def run_dyne(script, w, backend, collect=None, shared_prog=None):
    import strawberryfields as sf

    sf.hbar = script["hbar"]
    fallback = SeededOutcomes(script["tape"], w)
    oracle = DyneOracle(w, script, backend, lambda i: script["meas"][min(i, len(script["meas"]) - 1)], fallback)

    def handler(name, args, kwargs, native):
        out = oracle.rng(name, args, kwargs)
        if out is not None:
            return out
        return fallback(name, args, kwargs, native)

    fallback.override = None
    simenv = SimEnv(w, fallback, FaultPlan(), on_call=oracle.on_call)
    prog_spec = {"n": script["n"], "ops": script["prep"] + build_meas_ops(script)}
    with simenv:
        simenv.rng.handler = handler
        prog = shared_prog if shared_prog is not None else build_program(prog_spec)
        eng = simenv.engine(backend)
        if script.get("refused_first") and shared_prog is None and backend == "gaussian":
            # history: the state is prepared by one run; a measurement request the backend refuses (several shots of a homodyne /
            # heterodyne measurement) must leave the simulator exactly as it was; then the real measurement runs as a successor program
            prep_prog = build_program({"n": script["n"], "ops": script["prep"]})
            meas_only = build_program({"ops": build_meas_ops(script)}, parent=prep_prog)
            meas_again = build_program({"ops": build_meas_ops(script)}, parent=prep_prog)
            w.step("run_prep", backend=backend)
            eng.run(prep_prog)
            s0 = rm.snapshot(eng.backend.state(), sf.hbar)
            variant = script.get("refused_variant", "kw_meas")
            w.fault("refused_request:multi_shot_dyne:" + variant)
            refused = False
            try:
                if variant == "kw_meas":
                    eng.run(meas_only, shots=3)
                else:
                    # gates followed by a post-selected measurement, with several shots: the engine documents that it refuses this
                    # combination - before anything of the program is executed.  The shot count comes from the call or from the program.
                    bad = build_program({"ops": [{"op": "Sgate", "p": [0.4, 0.3], "m": [script["meas"][0]["m"]]}, {"op": "Dgate", "p": [0.5, 1.0], "m": [0]},
                                                 {"op": "MeasureHomodyne", "p": [0.3], "kw": {"select": script.get("refused_select", 0.2)}, "m": [script["meas"][0]["m"]]}]}, parent=prep_prog)
                    if variant == "stored_gates_select":
                        bad.run_options = {"shots": 3}
                        eng.run(bad)
                    else:
                        eng.run(bad, shots=3)
            except NotImplementedError:
                refused = True
            except Violation:
                return None, oracle, None
            if refused:
                oracle.cur = None
                oracle.n_meas = 0
                oracle.results = []
                s1 = rm.snapshot(eng.backend.state(), sf.hbar)
                d0 = rm.mixtures_close(s0, s1, random.Random(script["tape"]), tol=1e-9)
                if d0:
                    w.violation("conditioning", "refused-measurement-request-changed-the-state", {"diff": d0, "meas": script["meas"][0]}, ["backend=" + backend, "refused-request"])
                    return None, oracle, None
                w.probes["refused_request_left_state_unchanged"] += 1
                prog = meas_again
            else:
                return None, oracle, None  # the request was served (multi-shot supported): a different history, not this scenario
        w.step("run", backend=backend, shared_program=shared_prog is not None)
        try:
            res = eng.run(prog)
        except Violation:
            return None, oracle, None
        except ZeroDivisionError as ex:
            w.probes["zero_probability_postselection"] += 1
            return None, oracle, None
    if w.violations:
        return None, oracle, None
    # ---- collation: samples / samples_dict / RegRef.val carry the chosen outcomes with the hbar scaling applied once
    s = math.sqrt(script["hbar"] / 2)
    feats = ["backend=" + backend]
    if len(oracle.results) != len(script["meas"]):
        w.violation("collation", "number-of-measurement-events", {"events": len(oracle.results), "measurements": len(script["meas"])}, feats)
        return None, oracle, None
    if any(rr.get("skipped") for rr in oracle.results):
        return res, oracle, prog
    want = {}
    for me, rr in zip(script["meas"], oracle.results):
        v = rr["value"] * s if rr["kind"] == "hom" else rr["value"]
        want[me["m"]] = v
    cols = sorted(want)
    got = np.asarray(res.samples)
    if got.shape != (1, len(cols)) or any(abs(complex(got[0, j]) - complex(want[m])) > 1e-8 * max(1, abs(want[m])) for j, m in enumerate(cols)):
        w.violation("collation", "Result.samples", {"got": got.tolist(), "want_columns": cols, "want": [want[m] for m in cols], "hbar": script["hbar"]}, feats)
        return None, oracle, None
    for m in cols:
        d = res.samples_dict.get(m)
        if d is None or len(d) != 1 or abs(complex(np.asarray(d[0]).ravel()[0]) - complex(want[m])) > 1e-8 * max(1, abs(want[m])):
            w.violation("collation", "Result.samples_dict", {"mode": m, "got": str(d), "want": want[m]}, feats)
            return None, oracle, None
        val = prog.register[m].val if m < len(prog.register) else None
        if val is None or abs(complex(np.asarray(val).ravel()[0]) - complex(want[m])) > 1e-8 * max(1, abs(want[m])):
            w.violation("collation", "RegRef.val", {"mode": m, "got": str(val), "want": want[m]}, feats)
            return None, oracle, None
    return res, oracle, prog


def key_of(script, extra=""):
    return hashlib.sha256((json.dumps(script, sort_keys=True) + extra).encode()).hexdigest()[:16]


def execute(script, w):
    import strawberryfields as sf

    kind = script["kind"]
    try:
        if kind == "dyne":
            if script.get("native"):
                return exec_native(script, w)
            res, oracle, _ = run_dyne(script, w, script["backend"])
            if oracle.results and w.probes.get("nonvacuum_prestate"):
                w.nontrivial.add(key_of(script))
        elif kind == "xsel":
            exec_xsel(script, w)
        elif kind == "fock-count":
            exec_fock_count(script, w)
        elif kind == "fock-hom":
            exec_fock_hom(script, w)
        elif kind == "gauss-count":
            exec_gauss_count(script, w)
        elif kind == "collation":
            exec_collation(script, w)
        else:
            raise KeyError(kind)
    finally:
        sf.hbar = 2


# ------------------------------------------------------------------------------------------------
def exec_native(script, w):
    """native configuration: the real numpy functions draw (seeded); the oracle only observes, so nothing is decided solely
    under a stub.  Born arguments cannot be dictated here, but conditioning on the *returned* outcome is still exact."""
    import strawberryfields as sf

    sf.hbar = script["hbar"]
    backend = script["backend"]
    recorded = {}

    class Obs(DyneOracle):
        pass

    oracle = DyneOracle(w, dict(script, rejections=0), backend, lambda i: script["meas"][min(i, len(script["meas"]) - 1)], None)
    native_log = []

    def handler(name, args, kwargs, native):
        out = native(*args, **kwargs)
        cur = oracle.cur
        if cur is not None:
            if backend == "gaussian" and name == "multivariate_normal":
                cur["y"] = np.asarray(out, dtype=float).reshape(-1, 2)[0]
            elif backend == "gaussian" and name == "normal":
                cur["yp"] = float(out)
            elif backend == "bosonic" and name == "multivariate_normal":
                cur["last_native"] = np.asarray(out, dtype=float)
            elif backend == "bosonic" and name == "choice" and cur["kind"] == "thr":
                cur["outcome"] = int(np.asarray(out).ravel()[0])
        return out

    # the post hook needs the accepted point: for bosonic, the value returned by the backend call is the accepted one
    orig_on_call = oracle.on_call

    def on_call(phase, be, name, a, k, out):
        if phase == "post" and oracle.cur is not None and backend == "bosonic" and oracle.cur["kind"] in ("hom", "het") and oracle.cur["select"] is None:
            o = np.asarray(out).ravel()[0]
            ln = oracle.cur.get("last_native")
            if ln is not None:
                # the accepted proposal is the last point the native generator drew (both quadratures are used for conditioning)
                oracle.cur["y"] = np.array(ln, dtype=float).ravel()[:2]
            elif oracle.cur["kind"] == "hom":
                oracle.cur["y"] = np.array([float(np.real(o)), 0.0])
            else:
                oracle.cur["y"] = np.array([2 * complex(o).real, 2 * complex(o).imag])
        orig_on_call(phase, be, name, a, k, out)

    simenv = SimEnv(w, None, FaultPlan(), on_call=on_call, native_rng=False)
    prog_spec = {"n": script["n"], "ops": script["prep"] + build_meas_ops(script)}
    with simenv:
        np.random.seed(script["tape"] % (2 ** 32))
        simenv.rng.handler = handler
        prog = build_program(prog_spec)
        eng = simenv.engine(backend)
        w.step("run_native", backend=backend)
        try:
            eng.run(prog)
        except Violation:
            return
        except ZeroDivisionError:
            return
    w.probes["native_rng_runs"] += 1
    if oracle.results and w.probes.get("nonvacuum_prestate"):
        w.nontrivial.add(key_of(script, "native"))


def exec_xsel(script, w):
    """post-selecting on the same value gives the same conditional state on Gaussian and bosonic (and equals the reference)"""
    import strawberryfields as sf

    out = {}
    # one Program object for all executions (the ordinary way to compare backends): gaussian, bosonic, and - per script - gaussian again;
    # the operation objects (with their select values) are shared by all of them
    sf.hbar = script["hbar"]
    shared = build_program({"n": script["n"], "ops": script["prep"] + build_meas_ops(script)}) if script.get("share_program", True) else None
    order = ["gaussian", "bosonic"] + (["gaussian"] if script.get("rerun") else [])
    for i, be in enumerate(order):
        res, oracle, _ = run_dyne(script, w, be, shared_prog=shared)
        if w.violations:
            if i > 0:
                w.violations[-1]["detail"] = {"execution_no": i + 1, "of_same_program_object": shared is not None, "info": w.violations[-1]["detail"]}
            return
        if res is None:
            return
        out[be] = rm.snapshot(res.state, script["hbar"])
    d = rm.mixtures_close(out["gaussian"], out["bosonic"], random.Random(script["tape"]), tol=1e-5)
    if d:
        w.violation("cross-backend", "postselected-state gaussian vs bosonic", {"diff": d}, ["xsel"])
        return
    w.nontrivial.add(key_of(script))


# ------------------------------------------------------------------------------------------------
def foreign_fock_session(script, w):
    """another Fock-backend session earlier in the process: other cutoff, other hbar, homodyne and photon counting (fills every per-process
    cache the Fock simulator keeps: gate matrices, Hermite grids ...)"""
    import strawberryfields as sf
    from strawberryfields import ops as sfops

    w.fault("foreign_activity:fock_session_other_cutoff_and_hbar")
    fb = SeededOutcomes(script["tape"] + 99, w)
    env_ = SimEnv(w, fb, FaultPlan())
    saved_hbar = sf.hbar
    try:
        sf.hbar = 1.3 if script["hbar"] != 1.3 else 0.7
        with env_:
            p = sf.Program(2)
            with p.context as q:
                sfops.Fock(1) | q[0]
                sfops.Sgate(0.1, 0.4) | q[1]
                sfops.Dgate(0.2, 0.3) | q[0]
                sfops.BSgate(0.5, 0.2) | (q[0], q[1])
                sfops.Kgate(0.2) | q[1]
                sfops.MeasureHomodyne(0.3) | q[0]
                sfops.MeasureFock() | q[1]
            env_.engine("fock", {"cutoff_dim": script.get("cutoff", 5) + 2}).run(p)
    except Exception as ex:  # noqa
        w.log("foreign_error", exc=type(ex).__name__, msg=str(ex)[:200])
    finally:
        sf.hbar = saved_hbar


def exec_fock_count(script, w):
    import strawberryfields as sf

    if script.get("foreign_first"):
        foreign_fock_session(script, w)
    sf.hbar = script["hbar"]
    n, D = script["n"], script["cutoff"]
    ms = script["modes"]
    feats = ["backend=fock", "kind=fock", "pure=%s" % script["pure"]]
    fallback = SeededOutcomes(script["tape"], w)
    ctx = {"cur": None, "done": []}

    def on_call(phase, be, name, a, k, out):
        if name != "measure_fock":
            return
        real = getattr(type(be).__mro__[1], name)
        ba = inspect.signature(real).bind(be, *a, **k)
        ba.apply_defaults()
        modes = [int(m) for m in ba.arguments["modes"]]
        select = ba.arguments.get("select")
        if phase == "pre":
            rho = np.asarray(be.state().dm())
            ctx["cur"] = {"rho": rho, "modes": modes, "select": select, "drawn": None}
            return
        cur, ctx["cur"] = ctx["cur"], None
        rho = cur["rho"]
        outv = [int(v) for v in np.asarray(out).ravel()]
        if len(outv) != len(modes):
            w.violation("collation", "measure_fock-returned-shape", {"returned": outv, "modes": modes}, feats)
            return
        # which outcome was taken: selected values as given, sampled ones as drawn
        outcome = {}
        sel = select if select is not None else [None] * len(modes)
        free = [m for m, s in zip(modes, sel) if s is None]
        for m, s, v in zip(modes, sel, outv):
            if s is not None:
                if v != s:
                    w.violation("collation", "postselected-value-not-returned", {"mode": m, "select": s, "returned": v}, feats)
                    return
                outcome[m] = int(s)
        if free:
            if cur["drawn"] is None:
                w.violation("born", "no-draw", "measure_fock did not ask the RNG", feats)
                return
            for m in free:
                want = cur["drawn"][m]
                got = outv[modes.index(m)]
                if got != want:
                    w.violation("collation", "measure_fock-returned-order", {"modes": modes, "drawn": cur["drawn"], "returned": outv}, feats)
                    return
                outcome[m] = want
        refpost, trp = rm.project_number(rho, n, outcome)
        post = np.asarray(be.state().dm())
        err = float(np.max(np.abs(post - refpost)))
        if err > 1e-8:
            w.violation("conditioning", "fock-count-post-state", {"modes": modes, "outcome": outcome, "max_abs_diff": err, "select": select}, feats)
            return
        ctx["done"].append({"modes": modes, "outcome": outcome})
        w.probes["measurement_events"] += 1
        if abs(rho[(0,) * (2 * n)] - 1) > 1e-9:
            w.probes["nonvacuum_prestate"] += 1

    def handler(name, args, kwargs, native):
        cur = ctx["cur"]
        if name == "poisson" and script.get("dark"):
            lam = np.asarray(args[0], dtype=float).ravel().tolist()
            shape = args[1] if len(args) > 1 else kwargs.get("size")
            ctx["poisson"] = ctx.get("poisson", []) + [(lam, tuple(shape) if shape is not None else None)]
            return np.array([[10 * (j + 1) for j in range(len(ms))]])
        if cur is None or name != "choice":
            return fallback(name, args, kwargs, native)
        sel = cur["select"] if cur["select"] is not None else [None] * len(cur["modes"])
        free = [m for m, s in zip(cur["modes"], sel) if s is None]
        rho = cur["rho"]
        if any(s is not None for s in sel):
            rho, _ = rm.project_number(rho, n, {m: int(s) for m, s in zip(cur["modes"], sel) if s is not None})
        fs = sorted(free)
        pm = rm.joint_number_distribution(rho, n, fs)
        flat = pm.ravel()
        p = np.asarray(kwargs.get("p"), dtype=float)
        a = list(args[0])
        ok = len(p) == len(flat) and a == list(range(len(flat)))
        if ok:
            # the library may hand over the distribution over the free modes in the order it measures them; accept ascending order
            # (what it does) - any other axis order would be a different distribution unless symmetric
            # the library zeroes entries below 1e-8 ("spurious tiny values") before normalising
            ok = np.allclose(p / p.sum(), flat / flat.sum(), atol=2e-7)
        if not ok:
            w.violation("born", "fock-count-distribution", {"modes": cur["modes"], "free_sorted": fs, "handed_to_rng": p.tolist()[:40],
                                                            "reference": flat.tolist()[:40]}, feats)
            raise Violation("born", "fock-count-distribution", "stop")
        nz = [i for i, v in enumerate(flat) if v > 1e-9]
        how = script.get("pick", "random")
        if how == "rarest":
            pick = min(nz, key=lambda i: flat[i])
            w.fault("rng_tail")
        elif how == "likeliest":
            pick = max(nz, key=lambda i: flat[i])
        else:
            pick = nz[int(script.get("u", 0.5) * len(nz)) % len(nz)]
        idx = np.unravel_index(pick, pm.shape)
        cur["drawn"] = {m: int(idx[fs.index(m)]) for m in fs}
        w.fault("rng_chosen_outcome")
        return pick

    simenv = SimEnv(w, fallback, FaultPlan(), on_call=on_call)
    ops = list(script["prep"])
    kw = {}
    selspec = script.get("select")
    with simenv:
        simenv.rng.handler = handler
        # post-selection values must have non-zero probability: take them from a fault-free look at the pre-state
        if selspec:
            e0 = simenv.engine("fock", {"cutoff_dim": D, "pure": script["pure"]})
            rho0 = np.asarray(e0.run(build_program({"n": n, "ops": ops})).state.dm())
            pm = rm.joint_number_distribution(rho0, n, sorted(ms))
            best = np.unravel_index(int(np.argmax(pm)), pm.shape)
            sel = [int(best[sorted(ms).index(m)]) if s else None for m, s in zip(ms, selspec)]
            kw["select"] = sel
        if script.get("dark"):
            kw["dark_counts"] = script["dark"]
        mop = {"op": "MeasureFock", "m": ms, "kw": kw, "fresh": True}
        prog = build_program({"n": n, "ops": ops + [mop]})
        eng = simenv.engine("fock", {"cutoff_dim": D, "pure": script["pure"]})
        w.step("run", backend="fock")
        try:
            res = eng.run(prog)
        except Violation:
            return
    if w.violations or not ctx["done"]:
        if not w.violations:
            w.violation("collation", "no-measurement-event", None, feats)
        return
    oc = dict(ctx["done"][-1]["outcome"])
    if script.get("dark"):
        # dark counts: Poisson(dark_counts) handed over aligned with the measured register order, one draw per (shot, measured mode)
        pc = ctx.get("poisson", [])
        if len(pc) != 1 or not np.allclose(pc[0][0], script["dark"]) or pc[0][1] != (1, len(ms)):
            w.violation("born", "dark-count-distribution", {"poisson_calls": pc, "dark_counts": script["dark"], "measured_order": ms}, feats)
            return
        for j, m in enumerate(ms):
            oc[m] += 10 * (j + 1)
        w.probes["fock_dark_counts"] += 1
    cols = sorted(ms)
    got = np.asarray(res.samples)
    if got.shape != (1, len(cols)) or [int(v) for v in got[0]] != [oc[m] for m in cols]:
        w.violation("collation", "Result.samples", {"got": got.tolist(), "want_columns": cols, "want": [oc[m] for m in cols], "measured_order": ms}, feats)
        return
    for m in cols:
        d = res.samples_dict.get(m)
        if d is None or int(np.asarray(d[-1]).ravel()[0]) != oc[m]:
            w.violation("collation", "Result.samples_dict", {"mode": m, "got": str(d), "want": oc[m]}, feats)
            return
        if int(np.asarray(prog.register[m].val).ravel()[0]) != oc[m]:
            w.violation("collation", "RegRef.val", {"mode": m, "got": str(prog.register[m].val), "want": oc[m]}, feats)
            return
    if w.probes.get("nonvacuum_prestate"):
        w.nontrivial.add(key_of(script))


def exec_fock_hom(script, w):
    import strawberryfields as sf

    if script.get("foreign_first"):
        foreign_fock_session(script, w)
    sf.hbar = script["hbar"]
    hbar = script["hbar"]
    n, D, mode, phi = script["n"], script["cutoff"], script["mode"], script["phi"]
    feats = ["backend=fock", "kind=hom", "pure=%s" % script["pure"]]
    fallback = SeededOutcomes(script["tape"], w)
    ctx = {"cur": None, "done": None}
    s = math.sqrt(hbar / 2)
    grid = np.linspace(-10, 10, 100000)  # the library's documented default grid (max=10, num_bins=100000), hbar-independent units

    def on_call(phase, be, name, a, k, out):
        if name != "measure_homodyne":
            return
        if phase == "pre":
            ctx["cur"] = {"rho": np.asarray(be.state().dm()), "idx": None}
            if script["select"]:
                red0 = np.einsum(ctx["cur"]["rho"], [x_ if m != mode else (40 + b) for m in range(n) for b, x_ in enumerate((m, m))], [40, 41])
                gg = np.linspace(-6, 6, 601)
                dd = rm.homodyne_density(red0, phi, np.append(gg, script["x"]), 2.0)
                if dd[-1] < 2e-2 * dd[:-1].max():
                    # post-selecting an outcome of (nearly) zero density is ill-posed; not a case this check decides
                    w.probes["skipped_zero_density_postselection"] += 1
                    ctx["skip"] = True
            return
        cur, ctx["cur"] = ctx["cur"], None
        if ctx.get("skip"):
            ctx["done"] = {"x": script["x"], "skipped": True}
            return
        got = float(np.real(np.asarray(out).ravel()[0]))
        if script["select"]:
            x = script["x"]
        else:
            if cur["idx"] is None:
                w.violation("born", "no-draw", "measure_homodyne did not ask the RNG", feats)
                return
            x = float(cur["grid"][cur["idx"]])
        if abs(got - x) > 1e-8:
            w.violation("collation", "homodyne-returned-value", {"chosen": x, "returned": got}, feats)
            return
        post = np.asarray(be.state().dm())
        rho = cur["rho"]
        # structural facts (always): measured mode in vacuum, unit trace, Hermitian, positive semidefinite
        idx = [x_ for m in range(n) for x_ in (m, m)]
        tr = np.real(np.einsum(post, idx, []))
        red = np.einsum(post, [x_ if m != mode else (40 + b) for m in range(n) for b, x_ in enumerate((m, m))], [40, 41])
        mat = post.reshape(D ** n, D ** n) if n == 1 else np.transpose(post, [2 * m for m in range(n)] + [2 * m + 1 for m in range(n)]).reshape(D ** n, D ** n)
        herm = float(np.max(np.abs(mat - mat.conj().T)))
        mineig = float(np.min(np.linalg.eigvalsh((mat + mat.conj().T) / 2)))
        if abs(tr - 1) > 1e-8 or abs(red[0, 0] - 1) > 1e-8 or herm > 1e-9 or mineig < -1e-8:
            w.violation("conditioning", "fock-homodyne-structure", {"trace": tr, "measured_mode_vacuum_population": red[0, 0], "hermiticity": herm, "min_eig": mineig}, feats)
            return
        exact = script["product"] or abs(x) < 1e-12
        if exact:
            # backend API value x is in hbar = 2 ... the API is hbar-independent: x_api = x_hbar / sqrt(hbar/2)
            refpost, trp = rm.homodyne_project(rho, n, mode, phi, x, 2.0)
            err = float(np.max(np.abs(post - refpost)))
            if err > 5e-7:
                w.violation("conditioning", "fock-homodyne-post-state", {"x": x, "phi": phi, "mode": mode, "product": script["product"], "max_abs_diff": err}, feats)
                return
            w.probes["fock_homodyne_exact_conditioning"] += 1
        ctx["done"] = {"x": x}
        w.probes["measurement_events"] += 1
        w.probes["nonvacuum_prestate"] += 1

    def handler(name, args, kwargs, native):
        cur = ctx["cur"]
        if cur is None or name != "multinomial":
            return fallback(name, args, kwargs, native)
        probs = np.asarray(args[1], dtype=float)
        nb = len(probs)
        g = np.linspace(-10, 10, nb)
        cur["grid"] = g
        red = np.einsum(cur["rho"], [x_ if m != mode else (40 + b) for m in range(n) for b, x_ in enumerate((m, m))], [40, 41])
        dens = rm.homodyne_density(red, phi, g, 2.0)  # API units = hbar 2
        dens = dens / dens.sum()
        err = float(np.max(np.abs(probs - dens)) / dens.max())
        if args[0] != 1 or err > 1e-5:
            w.violation("born", "fock-homodyne-distribution", {"rel_err": err, "n": args[0], "bins": nb, "phi": phi}, feats)
            raise Violation("born", "fock-homodyne-distribution", "stop")
        target = script["x"]
        i = int(np.argmin(np.abs(g - target)))
        if probs[i] <= 2e-2 * probs.max():
            ok_idx = np.where(probs > 2e-2 * probs.max())[0]
            i = int(ok_idx[np.argmin(np.abs(g[ok_idx] - target))])
        if abs(target) < 1e-12:
            # no grid point is exactly 0 for an even number of bins: move to the closest and treat as inexact unless product
            pass
        cur["idx"] = i
        w.fault("rng_chosen_outcome")
        outv = np.zeros(nb, dtype=int)
        outv[i] = 1
        return outv

    simenv = SimEnv(w, fallback, FaultPlan(), on_call=on_call)
    kw = {"select": round(script["x"] * s, 9)} if script["select"] else {}
    with simenv:
        simenv.rng.handler = handler
        prog = build_program({"n": n, "ops": script["prep"] + [{"op": "MeasureHomodyne", "p": [phi], "m": [mode], "kw": kw}]})
        eng = simenv.engine("fock", {"cutoff_dim": D, "pure": script["pure"]})
        w.step("run", backend="fock")
        try:
            res = eng.run(prog)
        except Violation:
            return
    if w.violations:
        return
    if ctx["done"] is None:
        w.violation("collation", "no-measurement-event", None, feats)
        return
    if ctx["done"].get("skipped"):
        return
    x = ctx["done"]["x"]
    got = float(np.asarray(res.samples)[0, 0])
    if abs(got - x * s) > 1e-8:
        w.violation("collation", "Result.samples", {"got": got, "want": x * s, "hbar": hbar}, feats)
        return
    w.nontrivial.add(key_of(script))


# ------------------------------------------------------------------------------------------------
def exec_gauss_count(script, w):
    """Gaussian backend photon counting / threshold: the reduced mean and covariance handed to thewalrus (xxpp order of the
    measured register), shots, dark counts aligned to the measured register order, columns in ascending mode order"""
    import strawberryfields as sf
    import strawberryfields.backends.gaussianbackend.backend as gb

    sf.hbar = script["hbar"]
    n, ms, kind, shots = script["n"], script["modes"], script["mk"], script["shots"]
    feats = ["backend=gaussian", "kind=" + kind]
    fallback = SeededOutcomes(script["tape"], w)
    ctx = {"pre": None, "calls": [], "poisson": []}

    def on_call(phase, be, name, a, k, out):
        if name in ("measure_fock", "measure_threshold") and phase == "pre":
            ctx["pre"] = rm.snapshot(be.state(), sf.hbar)

    def mk_sampler(which):
        def sampler(*a, **k):
            w.seams["walrus:" + which] += 1
            if which == "hafnian":
                cov, nsamp = a[0], a[1] if len(a) > 1 else k.get("samples")
                mean = k.get("mean")
            else:
                cov, nsamp, mean = k.get("cov", a[0] if a else None), k.get("samples", 1), k.get("mu")
            pre = ctx["pre"]
            idx = list(ms) + [m + n for m in ms]  # register order as measured
            want_cov = np.real(pre.cov[0][np.ix_(idx, idx)])
            want_mean = np.real(pre.mu[0][idx])
            cov = np.asarray(cov, dtype=float)
            okc = cov.shape == want_cov.shape and np.allclose(cov, want_cov, atol=1e-8)
            okm = (mean is None and np.allclose(want_mean, 0, atol=1e-9)) or (mean is not None and np.allclose(np.asarray(mean, dtype=float), want_mean, atol=1e-8))
            if not (okc and okm) or int(nsamp) != shots:
                w.violation("born", "gaussian-count-sampler-arguments", {"which": which, "cov_ok": bool(okc), "mean_ok": bool(okm), "samples": int(nsamp), "shots": shots,
                                                                         "mean": None if mean is None else np.asarray(mean).tolist(), "ref_mean": want_mean.tolist()}, feats)
                raise Violation("born", "gaussian-count-sampler-arguments", "stop")
            # unique outcomes per (shot, measured position)
            base = np.array([[(7 * s_ + 3 * j + 1) % 5 for j in range(len(ms))] for s_ in range(shots)])
            if which != "hafnian":
                base = (base % 2)
            ctx["calls"].append(base.copy())
            return base

        return sampler

    def handler(name, args, kwargs, native):
        if name == "poisson":
            lam = np.asarray(args[0], dtype=float)
            shape = args[1] if len(args) > 1 else kwargs.get("size")
            ctx["poisson"].append((lam.tolist(), tuple(shape) if shape is not None else None))
            inc = np.array([[10 * (j + 1) for j in range(len(ms))] for _ in range(shots)])
            return inc
        return fallback(name, args, kwargs, native)

    simenv = SimEnv(w, fallback, FaultPlan(), on_call=on_call, stub_walrus=False)
    kw = {}
    if script.get("dark"):
        kw["dark_counts"] = script["dark"]
    if script.get("gc_select") is not None:
        kw["select"] = script["gc_select"]
    op = {"op": "MeasureFock" if kind == "fock" else "MeasureThreshold", "m": ms, "kw": kw, "fresh": True}
    saved = (gb.hafnian_sample_state, gb.torontonian_sample_state)
    with simenv:
        simenv.rng.handler = handler
        gb.hafnian_sample_state, gb.torontonian_sample_state = mk_sampler("hafnian"), mk_sampler("torontonian")
        try:
            prog = build_program({"n": n, "ops": script["prep"] + [op]})
            eng = simenv.engine("gaussian")
            w.step("run", backend="gaussian", shots=shots)
            try:
                res = eng.run(prog, shots=shots)
            except Violation:
                return
            except NotImplementedError:
                if script.get("gc_select") is not None:
                    w.probes["gaussian_count_postselection_refused_as_documented"] += 1  # "Gaussian backend currently does not support postselection"
                    return
                raise
        finally:
            gb.hafnian_sample_state, gb.torontonian_sample_state = saved
    if w.violations:
        return
    if script.get("gc_select") is not None:
        # the request was served: then the outcome reported is the post-selected one (a post-selection silently ignored returns whatever was drawn)
        got_ = np.asarray(res.samples).astype(int)
        want_ = np.array([script["gc_select"]])[:, np.argsort(ms)]
        if got_.shape != want_.shape or not np.array_equal(got_, want_):
            w.violation("conditioning", "post-selected-count-outcome-ignored", {"select": script["gc_select"], "measured_order": ms, "samples": got_.tolist(), "kind": kind}, feats)
        return
    if len(ctx["calls"]) != 1:
        w.violation("born", "gaussian-count-sampler-calls", {"calls": len(ctx["calls"])}, feats)
        return
    base = ctx["calls"][0].astype(int)
    if script.get("dark"):
        if len(ctx["poisson"]) != 1 or not np.allclose(ctx["poisson"][0][0], script["dark"]) or ctx["poisson"][0][1] != (shots, len(ms)):
            w.violation("born", "dark-count-distribution", {"poisson_calls": ctx["poisson"], "dark_counts": script["dark"], "shape": [shots, len(ms)]}, feats)
            return
        base = base + np.array([[10 * (j + 1) for j in range(len(ms))] for _ in range(shots)])
    order = np.argsort(ms)
    want = base[:, order]
    got = np.asarray(res.samples)
    if got.shape != want.shape or not np.array_equal(got.astype(int), want):
        w.violation("collation", "Result.samples", {"got": got.tolist(), "want": want.tolist(), "measured_order": ms}, feats)
        return
    for j, m in enumerate(ms):
        d = res.samples_dict.get(m)
        if d is None or not np.array_equal(np.asarray(d[-1]).astype(int).ravel(), base[:, j]):
            w.violation("collation", "Result.samples_dict", {"mode": m, "got": str(d), "want": base[:, j].tolist()}, feats)
            return
    w.probes["measurement_events"] += 1
    pre = ctx["pre"]
    if not (np.allclose(pre.mu, 0, atol=1e-9) and np.allclose(pre.cov[0], np.eye(2 * n), atol=1e-9)):
        w.probes["nonvacuum_prestate"] += 1
        w.nontrivial.add(key_of(script))


# ------------------------------------------------------------------------------------------------
def exec_collation(script, w):
    """several measurements (repeated modes, any order, shots) with unique injected outcomes: every reported number must be the
    outcome of exactly that (shot, mode, measurement)"""
    import strawberryfields as sf

    sf.hbar = script["hbar"]
    backend, n, shots = script["backend"], script["n"], script["shots"]
    s = math.sqrt(script["hbar"] / 2)
    feats = ["backend=" + backend, "collation"]
    fallback = SeededOutcomes(script["tape"], w)
    ctx = {"cur": None, "events": [], "counter": 0}

    def uniq():
        ctx["counter"] += 1
        return ctx["counter"]

    def on_call(phase, be, name, a, k, out):
        if not name.startswith("measure_"):
            return
        real = getattr(type(be).__mro__[1], name)
        ba = inspect.signature(real).bind(be, *a, **k)
        ba.apply_defaults()
        if phase == "pre":
            modes = ba.arguments.get("modes", ba.arguments.get("mode"))
            modes = [int(m) for m in modes] if isinstance(modes, (list, tuple, np.ndarray)) else [int(modes)]
            ctx["cur"] = {"name": name, "modes": modes, "vals": None, "shots": ba.arguments.get("shots", 1), "pre": be.state() if backend == "fock" else None}
            return
        cur, ctx["cur"] = ctx["cur"], None
        if cur["vals"] is None:
            w.violation("born", "no-draw", {"call": name}, feats)
            return
        ctx["events"].append(cur)

    def handler(name, args, kwargs, native):
        cur = ctx["cur"]
        if cur is None:
            return fallback(name, args, kwargs, native)
        nm = cur["name"]
        if backend == "gaussian" and name == "multivariate_normal":
            size = kwargs.get("size", args[2] if len(args) > 2 else None)
            k = int(size) if size else 1
            ys = np.array([[0.01 * uniq(), -0.01 * uniq()] for _ in range(k)])
            if nm == "measure_homodyne":
                cur["vals"] = [[float(y[0])] for y in ys]
            else:
                cur["vals"] = [[complex(y[0], y[1]) / 2] for y in ys]
            return ys if size else ys[0]
        if backend == "bosonic":
            if name == "choice":
                a = np.asarray(args[0])
                p = np.asarray(kwargs.get("p"), dtype=float)
                size = kwargs.get("size")
                pick = a[int(np.argmax(p))]
                return np.array([pick]) if size else pick
            if name == "multivariate_normal":
                mean = np.real(np.asarray(args[0], dtype=complex))
                y = mean + np.array([0.013 * uniq(), 0.0 if nm == "measure_homodyne" else -0.011 * uniq()])
                cur.setdefault("props", []).append(y)
                return y
            if name == "random":
                y = cur["props"][-1]
                cur["vals"] = (cur["vals"] or []) + [[float(y[0])] if nm == "measure_homodyne" else [complex(y[0], y[1]) / 2]]
                size = kwargs.get("size", args[0] if args else None)
                return np.zeros(size) if size else 0.0  # u = 0 always accepts a point of positive density
        if backend == "fock":
            if name == "choice":
                p = np.asarray(kwargs.get("p"), dtype=float)
                nzi = [i for i, v in enumerate(p) if v > 1e-9]
                pick = nzi[uniq() % len(nzi)]
                D = script["cutoff"]
                fs = sorted(cur["modes"])
                idx = np.unravel_index(pick, (D,) * len(fs))
                cur["vals"] = [[int(idx[fs.index(m)]) for m in cur["modes"]]]
                return pick
            if name == "multinomial":
                probs = np.asarray(args[1], dtype=float)
                g = np.linspace(-10, 10, len(probs))
                cand = np.where(probs > probs.max() * 0.2)[0]
                i = int(cand[(37 * uniq()) % len(cand)])
                cur["vals"] = [[float(g[i])]]
                outv = np.zeros(len(probs), dtype=int)
                outv[i] = 1
                return outv
        return fallback(name, args, kwargs, native)

    simenv = SimEnv(w, fallback, FaultPlan(), on_call=on_call)
    with simenv:
        simenv.rng.handler = handler
        prog = build_program({"n": n, "ops": script["ops"]})
        opts = {"cutoff_dim": script["cutoff"]} if backend == "fock" else {}
        eng = simenv.engine(backend, opts)
        w.step("run", backend=backend, shots=shots)
        try:
            res = eng.run(prog, shots=shots) if shots != 1 else eng.run(prog)
        except Violation:
            return
        except NotImplementedError as ex:
            w.probes["shots_not_supported"] += 1
            return
    if w.violations:
        return
    # expected tables
    per_mode = {}
    for ev in ctx["events"]:
        hom = ev["name"] == "measure_homodyne"
        for j, m in enumerate(ev["modes"]):
            col = [(row[j] * s if hom else row[j]) for row in ev["vals"]]
            per_mode.setdefault(m, []).append(col)
    if not per_mode:
        return
    cols = sorted(per_mode)
    got = np.asarray(res.samples)
    nsh = len(next(iter(per_mode.values()))[-1])
    want = np.array([[per_mode[m][-1][sh] for m in cols] for sh in range(nsh)])
    if got.shape != want.shape or np.max(np.abs(got.astype(complex) - want.astype(complex))) > 1e-8:
        w.violation("collation", "Result.samples", {"got": got.tolist(), "want": want.tolist(), "columns": cols, "shots": shots}, feats)
        return
    sd = res.samples_dict
    if sorted(sd) != cols:
        w.violation("collation", "Result.samples_dict-keys", {"got": sorted(sd), "want": cols}, feats)
        return
    for m in cols:
        if len(sd[m]) != len(per_mode[m]) or any(np.max(np.abs(np.asarray(a_, dtype=complex).ravel() - np.asarray(b_, dtype=complex))) > 1e-8 for a_, b_ in zip(sd[m], per_mode[m])):
            w.violation("collation", "Result.samples_dict", {"mode": m, "got": [np.asarray(x).tolist() for x in sd[m]], "want": per_mode[m]}, feats)
            return
        val = np.asarray(prog.register[m].val, dtype=complex).ravel()
        if np.max(np.abs(val - np.asarray(per_mode[m][-1], dtype=complex))) > 1e-8:
            w.violation("collation", "RegRef.val", {"mode": m, "got": val.tolist(), "want": per_mode[m][-1]}, feats)
            return
    w.probes["measurement_events"] += len(ctx["events"])
    if len(ctx["events"]) >= 2 or shots > 1:
        w.nontrivial.add(key_of(script))
        w.probes["nonvacuum_prestate"] += 1


# ------------------------------------------------------------------------------------------------
def features(script, v):
    f = ["scenario=" + script["kind"]]
    if "backend" in script:
        f.append("backend=" + script["backend"])
    if script.get("hbar") != 2.0:
        f.append("hbar!=2")
    for me in script.get("meas", []):
        f.append("meas=" + me["kind"])
        if me.get("select"):
            f.append("select")
    return f


def shrink(script):
    for key in ("prep", "ops"):
        if key in script and script[key]:
            for cand in ddmin_list(script[key], 0):
                yield dict(script, **{key: cand})
    if "meas" in script and len(script["meas"]) > 1:
        for cand in ddmin_list(script["meas"], 1):
            yield dict(script, meas=cand)
    if script.get("hbar") != 2.0:
        yield dict(script, hbar=2.0)
    if script.get("rejections"):
        yield dict(script, rejections=0)
    if script.get("shots", 1) > 1:
        yield dict(script, shots=1)
    for i, me in enumerate(script.get("meas", [])):
        for k, v in (("z", 0), ("z2", 0), ("phi", 0.0), ("select", False)):
            if me.get(k) not in (None, v):
                m2 = dict(me, **{k: v})
                yield dict(script, meas=script["meas"][:i] + [m2] + script["meas"][i + 1:])
    if script.get("dark"):
        yield dict(script, dark=None)
    if script.get("n", 1) > 1:
        # fewer modes if nothing refers to the last one
        last = script["n"] - 1
        used = {m for key in ("prep", "ops") for o in script.get(key, []) for m in o["m"]}
        used |= {me["m"] for me in script.get("meas", [])} | set(script.get("modes", [])) | ({script["mode"]} if "mode" in script else set())
        if last not in used:
            yield dict(script, n=last)
