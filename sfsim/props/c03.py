"""C03 - circuit optimisation never changes what a program computes (claimed for what histories, sharing and draws can break).

Sessions hold a program and its optimised copies (optimize(), compile(optimize=True)), which share RegRefs and operation objects,
and run them in a seeded order on fresh engines under the *same outcome tape* (without the RandomSeam two runs of a program with a
measurement cannot be compared at all).  Oracle: same final state / samples, fingerprint of the original unchanged by optimising and
by running the copy, re-optimising does not change the semantics.
"""
import hashlib
import json
import random

import numpy as np

from .. import env  # noqa
from ..gen import rnd
from ..runner import ddmin_list
from ..seams import FaultPlan
from ..session import SimEnv, SeededOutcomes, state_obs, obs_diff, samples_obs, samples_diff
from ..spec import build_program, program_fp, fp_diff, meas_deps, free_deps
from ..world import Violation
from .c10 import Tape  # per-(mode, k) outcome tape

ID = "C03"
LEVEL = "exploration"
BUDGET = {"quick": 240, "thorough": 1200}
JOB_TIMEOUT = 240
MINIMISE_S = {"quick": 60, "thorough": 240}
RULE = ("a case = a program over the mergeable single-mode families (Dgate, Xgate, Zgate, Sgate, Pgate, Rgate, Fourier, Kgate, Vgate and daggered forms; "
        "LossChannel, ThermalLossChannel, MSgate; preparations) interleaved with separators (two-mode gates), exact-cancellation pairs, measurements and "
        "feed-forward gates, after a seeded non-trivial input-state preparation; the original and its optimised copies are run in a seeded order; "
        "non-trivial iff the optimiser changed the circuit; distinct = distinct script digests")
REAL = ["strawberryfields.program_utils.optimize_circuit", "ops.Gate.merge / Channel.merge / Preparation.merge", "Program.optimize, Program.compile(optimize=True), _linked_copy",
        "engine, Gaussian / bosonic / Fock simulators"]
STUB = ["numpy.random.* : homodyne outcomes dictated by a per-(mode, k) tape so that original and optimised runs see the same outcomes"]
ASSUMPTIONS = [
    "differential oracle: original vs optimised on the same backend (no gate physics is trusted)",
    "ThermalLossChannel merges are exercised on the bosonic backend and on one-mode Gaussian registers only (the Gaussian backend's thermal loss touches spectator modes - C05's territory - so merely reordering commuting commands changes its result)",
    "Fock runs: cutoff 8, small parameters, tolerance 1e-3 (merging changes where truncation happens); Gaussian/bosonic: 1e-8, 1e-7 when the program measures (the homodyne update amplifies rounding by 1/eps^2), growing with parameter magnitudes above 100",
]


def warm(tier):
    sf = env.import_sf()
    from .. import warmup
    warmup.warm_engines(sf)
    warmup.clear_symbolic_caches()


def batches(tier):
    if tier == "quick":
        return [{"name": "gaussian", "runs": 6000, "weight": 4}, {"name": "bosonic", "runs": 2100, "weight": 2, "seed_offset": 100000},
                {"name": "fock", "runs": 480, "weight": 4, "seed_offset": 200000}]
    return [{"name": "gaussian", "runs": 50000, "weight": 4}, {"name": "bosonic", "runs": 15000, "weight": 2, "seed_offset": 100000},
            {"name": "fock", "runs": 3000, "weight": 5, "seed_offset": 200000}]


FAMILIES = {
    "Dgate": lambda r, s: [rnd(r, 0, 0.5 * s), rnd(r, 0, 6)], "Xgate": lambda r, s: [rnd(r, -0.5 * s, 0.5 * s)], "Zgate": lambda r, s: [rnd(r, -0.5 * s, 0.5 * s)],
    "Sgate": lambda r, s: [rnd(r, -0.4 * s, 0.4 * s), rnd(r, 0, 6)], "Pgate": lambda r, s: [rnd(r, -0.4 * s, 0.4 * s)], "Rgate": lambda r, s: [rnd(r, -3, 3)],
    "Fourier": lambda r, s: [], "Kgate": lambda r, s: [rnd(r, -0.1, 0.1)], "Vgate": lambda r, s: [rnd(r, -0.05, 0.05)],
    "LossChannel": lambda r, s: [rnd(r, 0.4, 1.0)], "ThermalLossChannel": lambda r, s: [rnd(r, 0.4, 1.0), None], "MSgate": lambda r, s: [rnd(r, -0.3, 0.3), rnd(r, 0, 3), 1.5, 0.95, True],
    "Coherent": lambda r, s: [rnd(r, 0, 0.5 * s), rnd(r, 0, 6)], "Squeezed": lambda r, s: [rnd(r, -0.3 * s, 0.3 * s), rnd(r, 0, 6)], "Vacuum": lambda r, s: [],
    "Thermal": lambda r, s: [rnd(r, 0, 0.6)],
}


def generate(seed, tier, batch):
    r = random.Random("c03:%d" % seed)
    backend = batch
    big = tier == "thorough"
    n = r.randint(1, 3 if backend != "fock" else 2)
    s = 0.25 if backend == "fock" else 1.0
    fams = ["Dgate", "Xgate", "Zgate", "Sgate", "Pgate", "Rgate", "Fourier", "LossChannel", "Coherent", "Squeezed", "Vacuum"]
    if backend == "fock":
        fams += ["Kgate", "Vgate"]
        if r.random() < 0.08:
            # Ggate (symplectic matrix, displacement): a primitive of the fock compiler that only the TensorFlow backend implements - such a
            # program can be optimised and compiled here, not run (the session ends at "original not runnable")
            fams += ["Ggate", "Ggate", "Ggate"]
    else:
        fams += ["Thermal"]
    if backend == "bosonic":
        fams += ["ThermalLossChannel", "MSgate"]
    if backend == "gaussian" and n == 1:
        fams += ["ThermalLossChannel"]
    if backend == "gaussian":
        fams += ["GaussianTransform", "Interferometer", "GraphEmbed"]  # single-mode matrix operations (Decomposition.merge multiplies the matrices)
    nbar = rnd(r, 0, 0.5)
    # input state
    ops = []
    for m in range(n):
        ops.append({"op": "Sgate", "p": [rnd(r, -0.3 * s, 0.3 * s), rnd(r, 0, 6)], "m": [m]})
        ops.append({"op": "Dgate", "p": [rnd(r, 0.1, 0.5 * s), rnd(r, 0, 6)], "m": [m]})
    if n > 1:
        ops.append({"op": "BSgate", "p": [rnd(r, 0.2, 1.3), rnd(r, 0, 6)], "m": r.sample(range(n), 2)})
    for o_ in ops:
        o_["inp"] = True  # input-state preparation (may be run as an earlier program segment of the session)
    ops.append({"op": "BARRIER"})
    measured = []
    L = r.randint(2, 10 if not big else 16)
    k = 0
    while k < L:
        x = r.random()
        m = r.randrange(n)
        if x < 0.5:
            # a run of 2-4 same-family ops on one wire, sometimes exactly cancelling, sometimes daggered
            f = r.choice(fams)
            run_len = r.randint(1, 4)
            first = None
            for j in range(run_len):
                if f == "GraphEmbed":
                    ops.append({"op": "GraphEmbed", "aval": rnd(r, 0.1, 0.6), "m": [m]})
                    k += 1
                    continue
                if f == "Ggate":
                    ops.append({"op": "Ggate", "useed": r.randrange(1 << 20), "m": [m]})
                    k += 1
                    continue
                if f == "GaussianTransform" and j > 0 and ops[-1]["op"] == "GaussianTransform" and ops[-1].get("useed") is not None and r.random() < 0.45:
                    # the second matrix undoes the first - exactly (a true identity), or up to a shear [[1, 0], [s, 1]]: the product then has a unit
                    # diagonal like the identity and is no identity
                    from ..spec import seeded_symplectic
                    s1_ = seeded_symplectic(ops[-1]["useed"], 1)
                    sh_ = np.array([[1.0, 0.0], [rnd(r, 0.2, 0.8) if r.random() < 0.7 else 0.0, 1.0]])
                    ops.append({"op": "GaussianTransform", "mat": (sh_ @ np.linalg.inv(s1_)).tolist(), "m": [m]})
                    k += 1
                    continue
                if f in ("GaussianTransform", "Interferometer"):
                    o = {"op": f, "useed": r.randrange(1 << 20) if not (f == "Interferometer" and r.random() < 0.25) else -1, "m": [m]}
                    if f == "Interferometer" and r.random() < 0.3:
                        o["kw"] = {"drop_identity": r.random() < 0.5}
                    ops.append(o)
                    k += 1
                    continue
                p = FAMILIES[f](r, s)
                if f == "ThermalLossChannel":
                    p[1] = nbar if r.random() < 0.7 else rnd(r, 0, 0.8)
                if f in ("LossChannel", "ThermalLossChannel") and r.random() < 0.2:
                    p[0] = 1.0  # a lossless stage (the neutral element of the family) next to a lossy one
                if first is not None and len(p) > 1 and r.random() < 0.7:
                    p[1:] = first[1:]  # same trailing parameters => mergeable
                if first is None:
                    first = list(p)
                o = {"op": f, "p": p, "m": [m]}
                if f in ("Dgate", "Xgate", "Zgate", "Sgate", "Pgate", "Rgate", "Kgate", "Vgate", "Fourier") and r.random() < 0.25:
                    o["dag"] = True
                if f == "Fourier" and r.random() < 0.5:
                    o["fresh"] = True  # Fouriergate() instance instead of the module singleton
                ops.append(o)
                k += 1
                if j == 0 and r.random() < 0.3 and f in ("Dgate", "Xgate", "Zgate", "Sgate", "Pgate", "Rgate", "Kgate", "Vgate", "Fourier"):
                    # exact inverse: g(p) then g(-p), or g then g.H
                    inv = dict(o)
                    if r.random() < 0.5 and o["p"]:
                        inv["p"] = [-o["p"][0]] + o["p"][1:]
                    else:
                        inv["dag"] = not o.get("dag", False)
                    if len(inv.get("p", [])) > 1 and r.random() < 0.3:
                        # first parameters cancel exactly but the phase differs: NOT an identity (and not mergeable)
                        inv["p"] = [inv["p"][0], rnd(r, 0, 6)] + list(inv["p"][2:])
                    ops.append(inv)
                    k += 1
        elif x < 0.56 and backend != "fock":
            # almost-inverse pair at a large magnitude: the sum of the first parameters is tiny relative to them, but it is not zero - the pair
            # is a small gate, not the identity (only linear families: the state stays bounded in between)
            f = r.choice(["Xgate", "Zgate", "Dgate", "Rgate"])
            big = rnd(r, 800, 5000)
            resid = round(big * r.choice([2e-6, 4e-6, 8e-6]), 6)
            ph = [rnd(r, 0, 6)] if f == "Dgate" else []
            ops.append({"op": f, "p": [big] + ph, "m": [m]})
            if r.random() < 0.5:
                ops.append({"op": f, "p": [-(big - resid)] + ph, "m": [m]})
            else:
                ops.append({"op": f, "p": [big - resid] + ph, "m": [m], "dag": True})
            k += 2
        elif x < 0.68 and n > 1:
            a, b = r.sample(range(n), 2)
            ops.append({"op": r.choice(["BSgate", "CXgate", "CZgate"]), "p": [rnd(r, -0.4 * s, 0.4 * s)] if True else [], "m": [a, b]})
            k += 1
        elif x < 0.82:
            ops.append({"op": "MeasureHomodyne", "p": [rnd(r, -3, 3)], "m": [m]})
            if m not in measured:
                measured.append(m)
            k += 1
        elif measured and n > 1:
            src = r.choice(measured)
            tg = r.choice([q for q in range(n) if q != src])
            f = r.choice(["Dgate", "Rgate", "Xgate", "Zgate"])
            e = {"mul": [{"meas": src}, rnd(r, -0.3, 0.3)]}
            for _ in range(r.randint(1, 2)):
                ops.append({"op": f, "p": [e] + ([0.0] if f == "Dgate" else []), "m": [tg]})
                k += 1
        else:
            k += 1
    # free parameters as first parameters of mergeable gates.  The program may have been bound (run) BEFORE it is optimised, with values that
    # happen to cancel exactly, and is then used with other values: optimisation must hold for all parameter values, not for the ones a
    # parameter happens to carry
    rf = random.Random("c03f:%d" % seed)
    bind0, bind1, prebind = {}, {}, None
    if rf.random() < 0.3:
        v = rnd(rf, 0.05, 0.3 * s)
        k_ = 0
        for o in ops:
            if o["op"] in ("Dgate", "Xgate", "Zgate", "Sgate", "Pgate", "Rgate", "Kgate", "Vgate") and o.get("p") and isinstance(o["p"][0], (int, float)) and rf.random() < 0.5 and k_ < 6:
                name = "f%d" % k_
                o["p"] = [{"free": name}] + list(o["p"][1:])
                sc_ = 0.1 if o["op"] in ("Kgate", "Vgate") else 1.0
                bind0[name] = round(v * sc_ * (-1) ** k_, 6)  # consecutive parameters cancel exactly under the earlier binding
                bind1[name] = rnd(rf, -0.3 * s * sc_, 0.3 * s * sc_)
                k_ += 1
        if bind0:
            prebind = rf.choice(["run", "bind_params", None])
    tape = {"%d:%d" % (m, kk): rnd(r, -1, 1) for m in range(n) for kk in range(12)}
    order = r.choice([["orig", "opt", "copt"], ["opt", "orig", "copt"], ["copt", "opt", "orig"], ["opt", "copt", "orig", "opt"]])
    return {"backend": backend, "n": n, "ops": [o for o in ops if o["op"] != "BARRIER"], "tape": tape, "order": order, "cutoff": 8,
            "reopt": r.random() < 0.4, "segs": [], "how": {}, "foreign_first": r.random() < 0.3, "pure": r.random() < 0.7,
            "bind0": bind0, "bind": bind1, "prebind": prebind,
            # the optimised program as a LATER segment of a session: its modes are then not in vacuum when it starts
            "two_segments": backend != "bosonic" and random.Random("c03s:%d" % seed).random() < 0.3}


def circ_sig(circ):
    return [(type(c.op).__name__, [str(x) for x in c.op.p], getattr(c.op, "dagger", None), [r_.ind for r_ in c.reg]) for c in circ]


def execute(script, w):
    import strawberryfields as sf
    from strawberryfields.program_utils import CircuitError

    backend = script["backend"]
    feats = ["backend=" + backend]
    tol = 1e-3 if backend == "fock" else 1e-8  # merging moves where the Fock truncation bites (squeezing-like gates at cutoff 8)
    # displacements of magnitude ~5000 that cancel up to ~0.02: the two evaluation orders round at 1e-16 * 5000 * (a few operations), so the
    # allowance grows with the largest parameter (the changes this is meant to see leave differences of 1e-2)
    if backend != "fock" and any(o_["op"] == "MeasureHomodyne" for o_ in script["ops"]):
        # the homodyne update divides by eps^2 = 4e-8: rounding differences between two orders of commuting operations are amplified to ~1e-8
        # (seen: 1.02e-8 after three embeddings and a measurement); breaking changes leave 1e-3 and more
        tol = 1e-7
    big_ = max([abs(o_["p"][0]) for o_ in script["ops"] if o_.get("p") and isinstance(o_["p"][0], (int, float))] + [1.0])
    if big_ > 100:
        tol = max(tol, 2e-9 * big_)
    fallback = SeededOutcomes(1, w)
    tscript = dict(script, backend=backend)
    tape = Tape(tscript, w, fallback)
    simenv = SimEnv(w, fallback, FaultPlan(), on_call=tape.on_call)
    opts = {"cutoff_dim": script["cutoff"], "pure": script.get("pure", True)} if backend == "fock" else {}
    with simenv:
        simenv.rng.handler = tape
        if script.get("foreign_first"):
            # another program of the same shape (dagger flags toggled, first parameters negated) was optimised and compiled earlier in the
            # process: nothing the optimiser or the merge rules may remember from it can be allowed to show in the observed program
            w.fault("foreign_activity:optimize_similar_program")
            fops = []
            for o in script["ops"]:
                o2 = dict(o)
                if o2.get("p") and isinstance(o2["p"][0], (int, float)) and o2["op"] not in ("LossChannel", "ThermalLossChannel", "Thermal", "Coherent", "Fock"):
                    o2["p"] = [-o2["p"][0]] + list(o2["p"][1:])
                if o2["op"] in ("Dgate", "Xgate", "Zgate", "Sgate", "Pgate", "Rgate", "Kgate", "Vgate"):
                    o2["dag"] = not o2.get("dag", False)
                fops.append(o2)
            try:
                fprog = build_program({"n": script["n"], "ops": fops})
                fprog.optimize()
                fprog.compile(compiler=backend, optimize=True)
            except Exception as ex:  # noqa
                w.log("foreign_error", exc=type(ex).__name__, msg=str(ex)[:200])
        first = None
        if script.get("two_segments"):
            first = build_program({"n": script["n"], "ops": [o_ for o_ in script["ops"] if o_.get("inp")]}, name="input")
            prog = build_program({"ops": [o_ for o_ in script["ops"] if not o_.get("inp")]}, parent=first, name="body")
        else:
            prog = build_program({"n": script["n"], "ops": script["ops"]})
        used = {f_ for o_ in script["ops"] for e_ in o_.get("p", []) for f_ in free_deps(e_)}
        args = {k_: v_ for k_, v_ in (script.get("bind") or {}).items() if k_ in used} or None
        args0 = {k_: v_ for k_, v_ in (script.get("bind0") or {}).items() if k_ in used} or None
        if args0 and script.get("prebind"):
            # history: the program has been used with other values before it is optimised
            w.step("prebind", how=script["prebind"])
            try:
                own0 = lambda p_: {k_: v_ for k_, v_ in args0.items() if k_ in p_.free_params} or None  # noqa
                if script["prebind"] == "run":
                    tape.reset()
                    eng0_ = simenv.engine(backend, opts)
                    if first is not None:
                        eng0_.run(first, args=own0(first))
                    eng0_.run(prog, args=own0(prog))
                else:
                    for p0_ in ([first] if first is not None else []) + [prog]:
                        if own0(p0_):
                            p0_.bind_params(own0(p0_))
            except Violation:
                return
            except Exception as ex:  # noqa
                w.probes["original_not_runnable"] += 1
                w.log("orig_error", exc=type(ex).__name__, msg=str(ex)[:200])
                return
            w.probes["optimised_after_an_earlier_binding"] += 1
        def own_args(p_):
            # run(args=...) refuses names the program does not know: every segment gets the values of its own parameters
            return {k_: v_ for k_, v_ in (args or {}).items() if k_ in p_.free_params} or None

        fp0 = program_fp(prog)
        w.step("optimize")
        try:
            opt = prog.optimize()
            copt = prog.compile(compiler=backend, optimize=True)
            plain = prog.compile(compiler=backend, optimize=False)
        except Exception as ex:  # noqa
            w.violation("optimize", "raises", {"exc": type(ex).__name__, "msg": str(ex)[:300]}, feats)
            return
        d = fp_diff(fp0, program_fp(prog))
        if d:
            w.violation("inputs-untouched", "optimize/compile", {"diff": d}, feats)
            return
        changed = circ_sig(opt.circuit) != circ_sig(prog.circuit)
        objs = {"orig": prog, "opt": opt, "copt": copt}
        results = {}
        for which in script["order"]:
            tape.reset()
            w.step("run", which=which)
            try:
                eng_ = simenv.engine(backend, opts)
                if first is not None:
                    eng_.run(first, args=own_args(first))
                res = eng_.run(objs[which], args=own_args(prog))
            except Violation:
                w.probes["dropped_impossible_tape_value"] += 1
                return
            except Exception as ex:  # noqa
                if which == "orig":
                    w.probes["original_not_runnable"] += 1
                    w.log("orig_error", exc=type(ex).__name__, msg=str(ex)[:200])
                    return
                if "orig" not in results:
                    # the copy was scheduled before the original: a program the backend cannot run at all is no finding of the optimiser
                    try:
                        tape.reset()
                        eo_ = simenv.engine(backend, opts)
                        if first is not None:
                            eo_.run(first, args=own_args(first))
                        eo_.run(prog, args=own_args(prog))
                    except Violation:
                        return
                    except Exception as ex2:  # noqa
                        w.probes["original_not_runnable"] += 1
                        w.log("orig_error", exc=type(ex2).__name__, msg=str(ex2)[:200])
                        return
                w.violation("optimize", "optimised-copy-raises", {"which": which, "exc": type(ex).__name__, "msg": str(ex)[:300]}, feats)
                return
            cur = (state_obs(res.state), samples_obs(res))
            if which in results:
                dd = obs_diff(results[which][0], cur[0], tol)
                if dd:
                    w.violation("rerun", "same-object-second-run", {"which": which, "diff": dd}, feats)
                    return
            results[which] = cur
            d = fp_diff(fp0, program_fp(prog))
            if d:
                w.violation("inputs-untouched", "run-of-" + which, {"diff": d}, feats)
                return
        ref = results.get("orig")
        for which, cur in results.items():
            if which == "orig" or ref is None:
                continue
            dd = obs_diff(ref[0], cur[0], tol) or samples_diff(ref[1], cur[1])
            if dd:
                w.violation("same-semantics", "original vs " + which, {"diff": dd, "optimised_circuit": [str(c) for c in objs[which].circuit][:30]}, feats)
                return
        if script.get("reopt"):
            try:
                opt2 = opt.optimize()
                tape.reset()
                eng_ = simenv.engine(backend, opts)
                if first is not None:
                    eng_.run(first, args=own_args(first))
                res2 = eng_.run(opt2, args=own_args(prog))
            except Exception as ex:  # noqa
                w.violation("optimize", "re-optimise-raises", {"exc": type(ex).__name__, "msg": str(ex)[:300]}, feats)
                return
            if ref is not None:
                dd = obs_diff(ref[0], state_obs(res2.state), tol)
                if dd:
                    w.violation("same-semantics", "original vs re-optimised", {"diff": dd}, feats)
                    return
        if changed:
            w.nontrivial.add(hashlib.sha256(json.dumps(script, sort_keys=True).encode()).hexdigest()[:16])
            w.probes["optimiser_changed_circuit"] += 1
            if len(opt.circuit) < len(prog.circuit) - 1:
                w.probes["merged_or_cancelled_ge2"] += 1


def features(script, v):
    f = ["backend=" + script["backend"]]
    fams = sorted({o["op"] for o in script["ops"]})
    for k in ("Fourier", "MSgate", "ThermalLossChannel", "MeasureHomodyne"):
        if k in fams:
            f.append("has=" + k)
    if any(meas_deps(e) for o in script["ops"] for e in o.get("p", [])):
        f.append("feed-forward")
    return f


def shrink(script):
    for cand in ddmin_list(script["ops"], 1):
        yield dict(script, ops=cand)
    if script.get("prebind"):
        yield dict(script, prebind=None)
    if script.get("two_segments"):
        yield dict(script, two_segments=False)
    if len(script["order"]) > 2:
        for cand in ddmin_list(script["order"], 2):
            if "orig" in cand:
                yield dict(script, order=cand)
    if script.get("reopt"):
        yield dict(script, reopt=False)
    ops = script["ops"]
    for i, o in enumerate(ops):
        if o.get("dag"):
            yield dict(script, ops=ops[:i] + [{k: v for k, v in o.items() if k != "dag"}] + ops[i + 1:])
