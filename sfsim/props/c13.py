"""C13 - a time-domain program means its explicit loop, however it is unrolled.

Reference model of the loop (mine): one queue per band; per time bin apply the commands with that bin's parameters, then the head
of every band leaves (it is measured) and a fresh vacuum mode enters.  From it a plain sf.Program with a fresh mode per pulse is
built and run on the Gaussian backend (a code path disjoint from tdm/program.py and the engine's TDM handling) to obtain the joint
Gaussian state of all pulses.  Under the RNG seam the library asks, for pulse k, for a Gaussian with some mean and variance: these
must equal the conditional mean/variance of pulse k given the already injected outcomes (exact statement of 'same joint state').
"""
import hashlib
import json
import math
import random

import numpy as np

from .. import env  # noqa
from ..runner import ddmin_list
from ..seams import FaultPlan, InjectedFault
from ..session import SimEnv, SeededOutcomes
from ..spec import program_fp, fp_diff
from ..world import Violation

ID = "C13"
LEVEL = "exploration"
BUDGET = {"quick": 240, "thorough": 1500}
JOB_TIMEOUT = 240
MINIMISE_S = {"quick": 60, "thorough": 240}
RULE = ("a case = one TDM program (1-4 bands, 1-3 (thorough: up to 16) concurrent modes per band, 1-5 time bins, per-bin parameter arrays incl. zeros, "
        "homodyne on the leading mode of every band) and one call history over unroll(s) / space_unroll(s) / roll() / compile / run(shots, space_unroll, "
        "crop) ending in an observed run whose outcomes are injected (unique per pulse), optionally after an interrupted run of the same program; daggered gates, post-selected bands, shuffled measurement commands; crop batch: loop-structured programs with crop=True; non-trivial: >= 2 state-machine calls before the observed run, "
        "or shots >= 2, or >= 2 bands; distinct = distinct script digests")
REAL = ["strawberryfields.tdm.program.TDMProgram (context, unroll, space_unroll, roll, _unroll_program, apply_op, reshape_samples, get_crop_value)",
        "strawberryfields.engine (get_tdm_options, _run_program sample reshaping)", "Gaussian backend (homodyne sampling, state)"]
STUB = ["numpy.random.multivariate_normal: arguments compared with the reference conditional distribution, outcome injected (unique per pulse)"]
ASSUMPTIONS = [
    "reference = my queue model of the loop + the Gaussian backend on a plain Program with one fresh mode per pulse",
    "homodyne at angle phi is x-homodyne after a rotation by -phi; measurement variance eps^2 = 4e-8 is added as the library documents",
    "the loop continues across shots (the register is not reset between shots), as the library's shifted unrolling does",
]

EPS2 = 0.0002 ** 2


def warm(tier):
    sf = env.import_sf()
    from .. import warmup
    warmup.warm_phase_space(sf)
    import strawberryfields.tdm  # noqa
    warmup.clear_symbolic_caches()


def batches(tier):
    if tier == "quick":
        return [
            {"name": "loop", "runs": 5600, "weight": 4},
            {"name": "space", "runs": 2000, "weight": 2, "seed_offset": 100000},
            {"name": "history", "runs": 3600, "weight": 3, "seed_offset": 200000},
            {"name": "shift", "runs": 2000, "weight": 2, "seed_offset": 300000},
            {"name": "crop", "runs": 2000, "weight": 2, "seed_offset": 400000},
        ]
    return [
        {"name": "loop", "runs": 30000, "weight": 4},
        {"name": "loop-wide", "runs": 4000, "weight": 3, "seed_offset": 50000},
        {"name": "space", "runs": 10000, "weight": 2, "seed_offset": 100000},
        {"name": "history", "runs": 20000, "weight": 4, "seed_offset": 200000},
        {"name": "shift", "runs": 10000, "weight": 2, "seed_offset": 300000},
        {"name": "crop", "runs": 10000, "weight": 2, "seed_offset": 400000},
    ]


MEAS_OPS = ("MeasureHomodyne", "MeasureHeterodyne")


def rnd(r, lo, hi):
    return round(r.uniform(lo, hi), 3)


def generate_crop(seed, tier):
    """single spatial mode, loop-structured (the layout get_delays / get_crop_value are documented for): a squeezed pulse enters at the
    highest register position in every bin, loop i is a beamsplitter between the positions d_i apart whose angle array decides, per bin,
    whether the light is coupled (non-zero) or keeps travelling down the register (zero); the pulse at position 0 is measured.
    crop=True must cut exactly the vacuum pulses that reach the detector before the first computational one."""
    r = random.Random("c13crop:%d" % seed)
    L = r.choice([1, 2, 2, 3])
    delays = [r.randint(1, 3) for _ in range(L)]
    n = 1 + sum(delays)
    T = r.randint(max(2, n - 1), n + 4)
    pos = [n - 1]
    for d in delays:
        pos.append(pos[-1] - d)
    params = [[rnd(r, 0.12, 0.35) for _ in range(T)]]  # squeezing of the source: non-zero in every bin (every pulse is computational)
    ops = [{"op": "Sgate", "p": [{"tdm": 0} if r.random() < 0.7 else rnd(r, 0.15, 0.35), rnd(r, 0, 3)], "m": [n - 1]}]
    for i, d in enumerate(delays):
        style = r.random()
        if style < 0.35:
            z = min(T, d)  # the usual vacuum padding: crossed for exactly its delay (counted from bin 0)
        elif style < 0.7:
            z = r.randint(0, min(T, d + 2))
        else:
            z = 0
        arr = [0.0] * z + [rnd(r, 0.3, 1.25) for _ in range(T - z)]
        if r.random() < 0.5:
            # more zero entries anywhere (crossed bins later in the sequence)
            for _ in range(r.randint(1, 3)):
                arr[r.randrange(T)] = 0.0
        params.append(arr)
        phase = rnd(r, 0, 3)
        if r.random() < 0.35:
            # the coupler's phase is given per time bin too (exact zeros included: a phase of 0 is a setting like any other)
            zs = r.choice([T, r.randint(0, T), 0])
            params.append([0.0] * zs + [rnd(r, 0, 3) for _ in range(T - zs)])
            phase = {"tdm": len(params) - 1}
        ops.append({"op": "BSgate", "p": [{"tdm": len(params) - 2 if isinstance(phase, dict) else len(params) - 1}, phase], "m": [pos[i + 1], pos[i]]})
        if r.random() < 0.5:
            params.append([rnd(r, 0, 3) for _ in range(T)])
            ops.append({"op": "Rgate", "p": [{"tdm": len(params) - 1}], "m": [pos[i + 1]]})
    params.append([rnd(r, 0, 3) for _ in range(T)])
    ops.append({"op": "MeasureHomodyne", "p": [{"tdm": len(params) - 1}], "m": [0]})
    final = r.choice([{"shots": None, "space_unroll": True, "crop": True}, {"shots": 1, "space_unroll": False, "crop": True},
                      {"shots": 2, "space_unroll": False, "crop": True}])
    if random.Random("c13cs:%d" % seed).random() < 0.2 and final["shots"] is not None:
        ops[-1]["select"] = rnd(random.Random("c13cv:%d" % seed), -0.6, 0.6)  # post-selected detector together with the crop option
        final = dict(final, shots=1)
    return {"N": [n], "T": T, "params": params, "ops": ops, "tape": seed, "history": [], "kind": "crop", "foreign_tdm": None, "shift": "default", "final": final,
            "delays": delays}


def generate(seed, tier, batch):
    if batch == "crop":
        return generate_crop(seed, tier)
    r = random.Random("c13:%d" % seed)
    wide = batch == "loop-wide"
    single_band = batch == "space" or r.random() < 0.45
    nb = 1 if single_band else r.randint(2, 4 if wide else 3)
    if wide:
        N = sorted(r.sample([1, 2, 3, 4, 6, 8, 16], nb))
        r.shuffle(N)
    else:
        N = [r.randint(1, 3) for _ in range(nb)]
    T = r.randint(1, 5 if not wide else 3)
    starts = [sum(N[:j]) for j in range(nb)]
    total = sum(N)
    npar = r.randint(1, 4) if r.random() < 0.9 else r.randint(11, 13)  # more than ten arrays: names p10, p11 sort before p2
    params = []
    for k_ in range(npar):
        kind = r.random()
        # array 0 holds amplitudes (squeezing / displacement: kept small, a mode is squeezed again in every bin it lives), the others angles
        hi_ = 0.35 if k_ == 0 else 1.4
        arr = [rnd(r, 0, hi_) if kind < 0.8 else 0.0 for _ in range(T)]
        if r.random() < 0.25:
            arr[r.randrange(T)] = 0.0
        params.append(arr)

    def par(scale=1.0):
        if r.random() < 0.7:
            return {"tdm": 0 if scale < 1.0 else r.randrange(npar)}
        return rnd(r, 0, min(scale, 0.35) if scale < 1.0 else scale)

    ops = []
    for _ in range(r.randint(1, 2 + total)):
        x = r.random()
        def second():
            # the second parameter of a two-parameter operation is a loop parameter too in a third of the cases
            return par(3.0) if (npar > 1 and r.random() < 0.35) else rnd(r, 0, 3)

        if x < 0.35:
            ops.append({"op": "Sgate", "p": [par(0.6), second() if r.random() < 0.5 else 0.0], "m": [r.randrange(total)]})
        elif x < 0.5:
            ops.append({"op": "Rgate", "p": [par(3.0)], "m": [r.randrange(total)]})
        elif x < 0.9 and total > 1:
            a, b = r.sample(range(total), 2)
            ops.append({"op": "BSgate", "p": [par(1.5), second()], "m": [a, b]})
        else:
            ops.append({"op": "Dgate", "p": [par(0.6), second()], "m": [r.randrange(total)]})
    # the leading mode of every band is measured, in band order, as the last commands of the bin
    for j in range(nb):
        ops.append({"op": "MeasureHomodyne", "p": [par(3.0)], "m": [starts[j]]})
    r2 = random.Random("c13b:%d" % seed)  # a second stream: later additions do not shift the programs of earlier seeds
    for o in ops:
        if o["op"] not in MEAS_OPS and r2.random() < 0.12:
            o["dag"] = True  # the hand-written loop applies the inverse gate in every bin
        elif o["op"] == "MeasureHomodyne" and batch in ("loop", "loop-wide") and r2.random() < 0.12:
            o["select"] = rnd(r2, -0.6, 0.6)  # post-selected measurement: every pulse of the band is conditioned on this value
        elif o["op"] == "MeasureHomodyne" and batch in ("loop", "loop-wide", "history") and r2.random() < 0.12:
            o["op"], o["p"] = "MeasureHeterodyne", []  # complex outcomes: both quadratures of every pulse of the band
    if nb > 1 and r.random() < 0.3:
        # ... or in another order: the measurement commands act on different modes, so any order is the same program
        tail = ops[-nb:]
        r.shuffle(tail)
        ops[-nb:] = tail
    foreign = None
    if r.random() < 0.3:
        # another time-domain program with a different band layout is built and run earlier in the same process
        fN = [r.randint(1, 3) for _ in range(r.randint(1, 3))]
        foreign = {"N": fN, "T": r.randint(1, 3), "measure_offset": r.randrange(2)}
    script = {"N": N, "T": T, "params": params, "ops": ops, "tape": seed, "history": [], "kind": batch if batch != "loop-wide" else "loop", "foreign_tdm": foreign,
              "shift": "default" if (nb > 1 or r.random() < 0.6) else 1}
    if r2.random() < 0.2:
        script["crash_first"] = {"k": r2.randint(0, 3 + 2 * len(ops)), "when": r2.choice(["before", "after"]), "exc": r2.choice(["InjectedFault", "KeyboardInterrupt", "MemoryError"])}
    if batch == "shift":
        # any integer shift (whole-register rotation): the joint state of the pulses is checked; the arrangement of the returned samples is
        # the listed finding KF-C13-int-shift-samples and is not looked at here
        script["shift"] = min(total, r.choice([1, 2, 2, 3, total])) if total > 1 else 1
        script["kind"] = "loop"
        script["skip_samples"] = True
        script["final"] = {"shots": r.choice([1, 2]), "space_unroll": False, "crop": False}
    elif batch in ("loop", "loop-wide"):
        script["final"] = {"shots": r.choice([1, 1, 2, 3]), "space_unroll": False, "crop": False}
        if any(o.get("select") is not None for o in ops):
            script["final"]["shots"] = 1  # documented: post-selection cannot be combined with several shots
    elif batch == "space":
        script["final"] = r.choice([{"shots": None, "space_unroll": True, "crop": False}, {"shots": None, "space_unroll": True, "crop": True}])
    else:
        calls = ["unroll:1", "unroll:2", "space:1", "space:2", "roll", "compile", "run:1", "run:2", "runS"]
        if nb > 1:
            calls = [c for c in calls if c != "runS"]
        final = r.choice([{"shots": 1, "space_unroll": False, "crop": False}, {"shots": 2, "space_unroll": False, "crop": False},
                          {"shots": None, "space_unroll": True, "crop": False}] if nb == 1 else
                         [{"shots": 1, "space_unroll": False, "crop": False}, {"shots": 2, "space_unroll": False, "crop": False}])
        # track the form the program is in and generate *around* the listed finding KF-C13-space-sampling: no sampling run while the
        # program is in space-unrolled form (a roll() is inserted first)
        form = "rolled"
        hist = []
        for _ in range(r.randint(1, 5)):
            c = r.choice(calls)
            if c.startswith("run:") and form == "space":
                hist.append("roll")
                form = "rolled"
            hist.append(c)
            if c.startswith("space:"):
                form = "space"
            elif c.startswith("unroll:") and form != "space":
                form = "unrolled"
            elif c == "roll":
                form = "rolled"
            elif c == "runS" and form == "unrolled":
                form = "space"
        if final["shots"] is not None and form == "space":
            hist.append("roll")
        script["history"] = hist
        script["final"] = final
    return script


# ------------------------------------------------------------------------------------------------
def build_tdm(script):
    import strawberryfields as sf
    from strawberryfields import ops as sfops

    prog = sf.TDMProgram(N=script["N"] if len(script["N"]) > 1 else script["N"][0])
    with prog.context(*script["params"], shift=script.get("shift", "default")) as (p, q):
        for o in script["ops"]:
            ps = [p[e["tdm"]] if isinstance(e, dict) else e for e in o["p"]]
            op = getattr(sfops, o["op"])(*ps, **({"select": o["select"]} if o.get("select") is not None else {}))
            if o.get("dag"):
                op = op.H
            op | tuple(q[m] for m in o["m"]) if len(o["m"]) > 1 else op | q[o["m"][0]]
    return prog


def rotate_positions(pos, N, shift):
    """the register shift at the end of a time bin: 'default' rotates every band separately by one, an integer rotates the whole register"""
    if shift == "default":
        out = []
        k = 0
        for n_ in N:
            band = pos[k:k + n_]
            out += band[1:] + band[:1]
            k += n_
        return out
    sh = int(shift) % len(pos) if len(pos) else 0
    return pos[sh:] + pos[:sh]


def band_of(script, j):
    """band measured by the measurement command at op index j (measurements act on the leading mode of a band)"""
    N = script["N"]
    return [sum(N[:b]) for b in range(len(N))].index(script["ops"][j]["m"][0])


def register_schedule(script, nbins):
    """which library register holds each measured position in each bin: list over bins of {op index: register}"""
    N = script["N"]
    regs = list(range(sum(N)))
    out = []
    for g in range(nbins):
        out.append({j: regs[o["m"][0]] for j, o in enumerate(script["ops"]) if o["op"] in MEAS_OPS})
        regs = rotate_positions(regs, N, script.get("shift", "default"))
    return out


def reference(script, nbins, rotate=True):
    """explicit loop written out by hand: a list of mode ids by register position; per bin the commands act on the modes at their
    positions, a measured mode is replaced by a fresh vacuum mode (that is what a destructive measurement + reset is), then the
    positions are rotated by the shift.  Returns (plain Program, pulses[(measurement slot, global bin)] = mode id, number of modes)"""
    import strawberryfields as sf
    from strawberryfields import ops as sfops

    N, T = script["N"], script["T"]
    total = sum(N)
    meas_slots = [j for j, o in enumerate(script["ops"]) if o["op"] in MEAS_OPS]
    nmodes = total + nbins * len(meas_slots)
    ref = sf.Program(nmodes)
    pos = list(range(total))
    nxt = total
    pulses = {}
    with ref.context as q:
        for g in range(nbins):
            t = g % T
            for j, o in enumerate(script["ops"]):
                ps = [script["params"][e["tdm"]][t] if isinstance(e, dict) else e for e in o["p"]]
                if o["op"] in MEAS_OPS:
                    m = pos[o["m"][0]]
                    if rotate and o["op"] == "MeasureHomodyne":
                        sfops.Rgate(-ps[0]) | q[m]
                    pulses[(band_of(script, j), g)] = m
                    pos[o["m"][0]] = nxt  # measured and reset: a fresh vacuum mode takes its place
                    nxt += 1
                    continue
                regs = [q[pos[m]] for m in o["m"]]
                op = getattr(sfops, o["op"])(*ps)
                if o.get("dag"):
                    op = op.H
                op | tuple(regs) if len(regs) > 1 else op | regs[0]
            pos = rotate_positions(pos, N, script.get("shift", "default"))
    return ref, pulses, nmodes


def execute(script, w):
    import strawberryfields as sf

    N, T = script["N"], script["T"]
    nb = len(N)
    starts = [sum(N[:j]) for j in range(nb)]
    feats = ["bands=%d" % nb, "kind=" + script["kind"]]
    fallback = SeededOutcomes(script["tape"], w)
    final = script["final"]
    shots = final["shots"]
    nbins = T * (shots or 1)
    ctx = {"cur": None, "events": [], "count": {}, "observing": False}

    sel_of_band = {band_of(script, j_): o_["select"] for j_, o_ in enumerate(script["ops"]) if o_["op"] == "MeasureHomodyne" and o_.get("select") is not None}

    def inj(j, g):
        if j in sel_of_band:
            return sel_of_band[j] / math.sqrt(sf.hbar / 2)  # dictated by the program, not by the scheduler
        k = g * nb + j
        return round(0.17 * (k + 1) * (-1) ** k / (1 + 0.05 * k), 6)

    def on_call(phase, be, name, a, k, out):
        if name not in ("measure_homodyne", "measure_heterodyne") or not ctx["observing"]:
            return
        if phase == "pre":
            mode = k.get("mode", (a[1] if len(a) > 1 else None) if name == "measure_homodyne" else (a[0] if a else None))
            mode = int(mode[0]) if isinstance(mode, (list, tuple)) else int(mode)
            c = ctx["count"].get(mode, 0)
            ctx["count"][mode] = c + 1
            ctx["cur"] = {"reg": mode, "k": c, "het": name == "measure_heterodyne"}
            if k.get("select") is not None:
                # post-selected: no draw; the value the backend is told to condition on is the event
                ctx["events"].append({"pulse": pulse_of(mode, c), "mean": None, "var": None, "v": float(k["select"]) / math.sqrt(sf.hbar / 2), "selected": True})
                ctx["cur"]["selected"] = True
        else:
            ctx["cur"] = None

    sched = register_schedule(script, nbins)
    meas_slots = [j for j, o in enumerate(script["ops"]) if o["op"] in MEAS_OPS]
    by_reg = {}
    for g, d_ in enumerate(sched):
        for j in meas_slots:
            by_reg.setdefault(d_[j], []).append((band_of(script, j), g))

    def pulse_of(reg, kcount):
        """(measurement slot, global bin) of the kcount-th measurement of register `reg`"""
        if final["space_unroll"]:
            return (0, reg)  # single band: pulse of bin b sits in register b
        lst = by_reg.get(reg, [])
        return lst[kcount] if kcount < len(lst) else (-1, -1)

    def handler(name, args, kwargs, native):
        cur = ctx["cur"]
        if cur is not None and cur.get("selected") and name == "normal":
            return 0.0  # the conjugate quadrature of a post-selected homodyne measurement (drawn by the library, weight eps^2): injected as 0 like everywhere
        if cur is None or name != "multivariate_normal":
            return fallback(name, args, kwargs, native)
        j, g = pulse_of(cur["reg"], cur["k"])
        mean = np.asarray(args[0], dtype=float)
        cov = np.asarray(args[1], dtype=float)
        v = inj(j, g)
        if cur.get("het"):
            v2 = round(0.13 - 0.6 * v, 6)  # heterodyne: both quadratures are outcomes
            ctx["events"].append({"pulse": (j, g), "mean": float(mean[0]), "var": float(cov[0, 0]), "v": v, "het": True, "mean2": float(mean[1]), "var2": float(cov[1, 1]),
                                  "cov12": float(cov[0, 1]), "v2": v2})
            size = kwargs.get("size", args[2] if len(args) > 2 else None)
            y = np.array([v, v2])
            return np.tile(y, (int(size), 1)) if size else y
        ctx["events"].append({"pulse": (j, g), "mean": float(mean[0]), "var": float(cov[0, 0]), "v": v})
        size = kwargs.get("size", args[2] if len(args) > 2 else None)
        y = np.array([v, 0.0])
        return np.tile(y, (int(size), 1)) if size else y

    plan = FaultPlan()
    simenv = SimEnv(w, fallback, plan, on_call=on_call)
    with simenv:
        simenv.rng.handler = handler
        try:
            prog = build_tdm(script)
        except Exception as ex:  # noqa
            w.violation("valid-program-accepted", "TDMProgram-construction", {"exc": type(ex).__name__, "msg": str(ex)[:300]}, feats)
            return
        if script.get("foreign_tdm"):
            run_foreign_tdm(script["foreign_tdm"], w, simenv, fallback)
        fp0 = program_fp(prog, with_ids=False)
        rolled0 = [(type(c.op).__name__, [str(x) for x in c.op.p], [r_.ind for r_ in c.reg]) for c in prog.circuit]
        reg0 = [(k_, v_.ind, v_.active) for k_, v_ in prog.reg_refs.items()]

        # ---- call history before the observed run (history batch)
        for h in script["history"]:
            w.step(h)
            try:
                do_call(prog, h, simenv)
            except ValueError as ex:
                # the library documents refusing unroll <-> space_unroll without roll() in between
                if "Must be rolled" in str(ex):
                    w.probes["documented_refusal_unroll_without_roll"] += 1
                    continue
                w.violation("history", "call-raises", {"call": h, "exc": type(ex).__name__, "msg": str(ex)[:300], "history": script["history"]}, feats + ["history"])
                return
            except Exception as ex:  # noqa
                w.violation("history", "call-raises", {"call": h, "exc": type(ex).__name__, "msg": str(ex)[:300], "history": script["history"]}, feats + ["history"])
                return
            if h == "roll":
                now = [(type(c.op).__name__, [str(x) for x in c.op.p], [r_.ind for r_ in c.reg]) for c in prog.circuit]
                regn = [(k_, v_.ind, v_.active) for k_, v_ in prog.reg_refs.items()]
                if now != rolled0:
                    w.violation("history", "roll-restores-circuit", {"history": script["history"]}, feats + ["history"])
                    return
                if [x for x in regn if x[2]] != [x for x in reg0 if x[2]] or prog.init_num_subsystems != fp0["init_num_subsystems"] or len(regn) != len(reg0):
                    w.violation("history", "roll-restores-register", {"history": script["history"], "register_now": regn, "register_orig": reg0,
                                                                      "init_num_subsystems": [fp0["init_num_subsystems"], prog.init_num_subsystems]}, feats + ["history"])
                    return
                if prog.is_unrolled:
                    w.violation("history", "is_unrolled-after-roll", None, feats + ["history"])
                    return

        kwargs = {}
        if shots != 1:
            kwargs["shots"] = shots
        if final["space_unroll"]:
            kwargs["space_unroll"] = True
        if final["crop"]:
            kwargs["crop"] = True

        # ---- an interrupted run first (fault): a backend call of a run of the same program fails; the user's program must be what it was
        # (the engine works on an unrolled copy that shares the register), then the observed run is made on a new engine
        cf = script.get("crash_first")
        if cf:
            plan.n = 0
            plan.arm(cf["k"], cf["when"], cf["exc"])
            w.step("crash_run", k=cf["k"], when=cf["when"])
            fired = False
            fp_before = program_fp(prog, with_ids=False)
            reg_before = [(k_, v_.ind, v_.active) for k_, v_ in prog.reg_refs.items()]
            try:
                simenv.engine("gaussian").run(prog, **kwargs)
            except (InjectedFault, KeyboardInterrupt, MemoryError):
                fired = plan.fired
            except Exception:  # noqa - whatever the run itself raises is judged at the observed run below
                pass
            plan.disarm()
            if fired:
                d = fp_diff(fp_before, program_fp(prog, with_ids=False))
                regn = [(k_, v_.ind, v_.active) for k_, v_ in prog.reg_refs.items()]
                if d or regn != reg_before:
                    w.violation("history", "interrupted-run-leaves-program-untouched", {"diff": d, "register_before": reg_before, "register_after": regn, "run_options": final,
                                                                                       "crash": cf}, feats + ["crash"])
                    return
                w.probes["interrupted_run_left_program_untouched"] += 1
            else:
                w.probes["crash_not_reached"] += 1

        # ---- the observed run
        ctx["observing"] = True
        ctx["count"] = {}
        ctx["events"] = []
        eng = simenv.engine("gaussian")
        w.step("run", **{k_: str(v_) for k_, v_ in kwargs.items()})
        try:
            res = eng.run(prog, **kwargs)
        except NotImplementedError as ex:
            if final["crop"]:
                w.probes["crop_not_implemented_for_this_program"] += 1  # documented limitation (nested loops / several spatial modes)
                return
            w.violation("history" if script["history"] else "loop", "run-raises", {"exc": type(ex).__name__, "msg": str(ex)[:300], "history": script["history"], "final": final},
                        feats + (["history"] if script["history"] else []))
            return
        except Exception as ex:  # noqa
            import traceback as _tb
            in_reshape = any(f.name in ("reshape_samples", "_get_mode_order") for f in _tb.extract_tb(ex.__traceback__))
            if script.get("skip_samples") and in_reshape and isinstance(ex, (IndexError, KeyError)):
                w.probes["int_shift_reshape_raises_known_finding"] += 1
                res = None  # all measurements have been made; only the arrangement of the samples failed
            else:
                w.violation("history" if script["history"] else "loop", "run-raises", {"exc": type(ex).__name__, "msg": str(ex)[:300], "history": script["history"], "final": final},
                            feats + (["history"] if script["history"] else []))
                return
        ctx["observing"] = False
        hist_feats = feats + (["history"] if script["history"] else [])

        # ---- reference joint state
        ref_prog, pulses, nmodes = reference(script, nbins, rotate=shots is not None)
        tape_saved = simenv.rng.handler
        simenv.rng.handler = fallback
        st = sf.Engine("gaussian").run(ref_prog).state
        simenv.rng.handler = tape_saved
        mu, cov = np.asarray(st.means()), np.asarray(st.cov())  # xxpp, hbar = 2

        crop_ref = None
        if script["kind"] == "crop":
            # independent crop value: the pulses of the explicit loop that are exactly vacuum when they reach the detector, counted from
            # the first bin (every pulse the source emits is squeezed, coupling angles are generic, so the first computational pulse
            # is the first non-vacuum one).  For the joint state without measurements (shots=None) this is the marginal of the pulse; the
            # marginals do not depend on later measurement outcomes, so it is the same number for sampling runs.
            ref0, pulses0, nm0 = reference(script, T, rotate=False)
            tape_saved0 = simenv.rng.handler
            simenv.rng.handler = fallback
            st0 = sf.Engine("gaussian").run(ref0).state
            simenv.rng.handler = tape_saved0
            mu0, cov0 = np.asarray(st0.means()), np.asarray(st0.cov())
            crop_ref = T
            for g in range(T):
                i0 = pulses0[(0, g)]
                B0 = [i0, i0 + nm0]
                if np.max(np.abs(mu0[B0])) > 1e-9 or np.max(np.abs(cov0[np.ix_(B0, B0)] - np.eye(2))) > 1e-9:
                    crop_ref = g
                    break
            w.probes["crop_reference_value_%d" % min(crop_ref, 4)] += 1
            # what the library cropped is read off the size of what it returned.  The property is about which pulse an entry belongs to,
            # so the check is: nothing but vacuum pulses is cut away (no computational pulse is lost; crop_lib <= crop_ref) and entry k
            # is pulse crop_lib + k.  Cutting fewer vacuum pulses than arrive (possible when an earlier loop is crossed in the very bin
            # in which a later loop first couples: get_crop_value looks at each loop's own array only) keeps every outcome in place
            # and is counted, not flagged.
            if res is not None:
                if shots is None:
                    got_len = 0 if res.state is None else res.state.num_modes  # all pulses cropped: no state is returned
                else:
                    got_len = None if res.samples is None or np.asarray(res.samples).ndim != 3 else np.asarray(res.samples).shape[2]
                if got_len is None or not (0 <= T - got_len <= crop_ref):
                    w.violation("crop", "crop-discards-computational-pulses", {"time_bins": T, "returned_bins": got_len, "vacuum_pulses_before_first_light": crop_ref},
                                feats)
                    return
                if T - got_len < crop_ref:
                    w.probes["crop_keeps_some_leading_vacuum_pulses"] += 1
                crop_ref = T - got_len
        if shots is None:
            # oracle 3: space-unrolled state (no measurement applied) equals the reference joint state on the pulse modes
            crop = 0
            if final["crop"] and crop_ref is not None:
                crop = crop_ref
            elif final["crop"]:
                try:
                    crop = build_tdm(script).get_crop_value()
                except Exception:  # noqa
                    crop = 0
            order = [pulses[(0, g)] for g in range(crop, T)]
            idx = order + [m + nmodes for m in order]
            want_mu, want_cov = mu[idx], cov[np.ix_(idx, idx)]
            s = res.state
            if not order:
                if s is not None and s.num_modes != 0:
                    w.violation("space-unroll", "state-mode-count", {"got": s.num_modes, "want": 0, "crop": crop}, hist_feats)
                return
            if s is None or s.num_modes != len(order):
                w.violation("space-unroll", "state-mode-count", {"got": None if s is None else s.num_modes, "want": len(order), "crop": crop}, hist_feats)
                return
            gm, gc = np.asarray(s.means()), np.asarray(s.cov())
            if np.max(np.abs(gm - want_mu)) > 1e-7 or np.max(np.abs(gc - want_cov)) > 1e-7:
                w.violation("space-unroll", "state-equals-loop", {"max_mean_diff": float(np.max(np.abs(gm - want_mu))), "max_cov_diff": float(np.max(np.abs(gc - want_cov))),
                                                                  "crop": crop, "history": script["history"]}, hist_feats)
                return
        else:
            # oracle 2: Born arguments for every pulse = sequential conditioning of the reference joint state
            evs = ctx["events"]
            if len(evs) != nbins * nb:
                w.violation("loop", "number-of-measurements", {"got": len(evs), "want": nbins * nb, "history": script["history"]}, hist_feats)
                return
            # sequential conditioning of the reference joint state, one pulse at a time, on (x, p) with the documented finite-squeezing
            # homodyne noise diag(eps^2, 1/eps^2) and the outcomes handed back to the library (injected value, 0.0).  2x2 blocks keep
            # this well conditioned (a single solve mixing eps^2 and 1/eps^2 is not).
            cmu, ccov = mu.copy(), cov.copy()
            seen = set()
            ncond = 0
            maxval = 0.0
            for e in evs:
                pz = tuple(e["pulse"])
                if pz not in pulses or pz in seen:
                    w.violation("loop", "pulse-identity", {"pulse": pz, "known": pz in pulses, "repeated": pz in seen}, hist_feats)
                    return
                seen.add(pz)
                i = pulses[pz]
                B = [i, i + nmodes]
                m = cmu[i]
                v = ccov[i, i] + EPS2
                # rounding in both computations is relative to the largest (anti-squeezed) entries of the joint covariance
                big = 1 + float(np.max(np.abs(cov))) / 20
                tolm = 2e-6 * (1 + abs(m) + maxval) * (1 + v) * big
                if e.get("selected"):
                    if pz[0] not in sel_of_band or abs(e["v"] - inj(*pz)) > 1e-12:
                        w.violation("loop", "post-selection-value-of-pulse", {"pulse": pz, "library_select": e["v"], "program_select": sel_of_band.get(pz[0])}, hist_feats)
                        return
                elif pz[0] in sel_of_band:
                    w.violation("loop", "post-selected-measurement-sampled-instead", {"pulse": pz, "program_select": sel_of_band[pz[0]]}, hist_feats)
                    return
                elif abs(e["mean"] - m) > tolm or (not e.get("het") and abs(e["var"] - v) > 1e-5 * (1 + v) * big):
                    w.violation("loop", "conditional-distribution-of-pulse", {"pulse": pz, "library_mean": e["mean"], "reference_mean": m, "library_var": e["var"],
                                                                              "reference_var": v, "n_conditioned_on": ncond, "history": script["history"]}, hist_feats)
                    return
                if e.get("het"):
                    # heterodyne: unit (vacuum) noise on both quadratures; the distribution handed to the generator is two-dimensional
                    S = ccov[np.ix_(B, B)] + np.eye(2)
                    if (abs(e["mean2"] - cmu[B[1]]) > tolm or abs(e["var2"] - S[1, 1]) > 1e-5 * (1 + S[1, 1]) * big or abs(e["cov12"] - S[0, 1]) > 1e-5 * (1 + v) * big
                            or abs(e["var"] - S[0, 0]) > 1e-5 * (1 + v) * big):
                        w.violation("loop", "conditional-distribution-of-pulse", {"pulse": pz, "heterodyne": True, "library": [e["mean"], e["mean2"], e["var"], e["var2"], e["cov12"]],
                                                                                  "reference": [float(cmu[B[0]]), float(cmu[B[1]]), float(S[0, 0]), float(S[1, 1]), float(S[0, 1])]}, hist_feats)
                        return
                    y_ = np.array([e["v"], e["v2"]])
                else:
                    S = ccov[np.ix_(B, B)] + np.diag([EPS2, 1.0 / EPS2])
                    y_ = np.array([e["v"], 0.0])
                K = ccov[:, B] @ np.linalg.inv(S)
                cmu = cmu + K @ (y_ - cmu[B])
                ccov = ccov - K @ ccov[B, :]
                ccov = (ccov + ccov.T) / 2
                ncond += 1
                maxval = max(maxval, abs(e["v"]))
            if script.get("skip_samples"):
                w.probes["pulses_checked_integer_shift"] += nbins * nb
                w.nontrivial.add(hashlib.sha256(json.dumps(script, sort_keys=True).encode()).hexdigest()[:16])
                return
            # oracle 4: samples[shot, band, bin] is the outcome of exactly that pulse
            smp = np.asarray(res.samples)
            hb = math.sqrt(sf.hbar / 2)
            het_bands = {band_of(script, j_) for j_, o_ in enumerate(script["ops"]) if o_["op"] == "MeasureHeterodyne"}

            def sample_of(j, g):
                v_ = inj(j, g)
                return 0.5 * complex(v_, round(0.13 - 0.6 * v_, 6)) if j in het_bands else v_ * hb  # heterodyne: alpha = (x + i p) / 2 at hbar = 2

            want = np.array([[[sample_of(j, sh * T + t) for t in range(crop_ref if (final["crop"] and crop_ref) else 0, T)] for j in range(nb)] for sh in range(shots)])
            if smp.shape != want.shape or (want.size and np.max(np.abs(smp - want)) > 1e-9):
                w.violation("samples", "Result.samples[shot, band, bin]", {"got_shape": list(smp.shape), "want_shape": list(want.shape), "got": smp.tolist(), "want": want.tolist(),
                                                                        "history": script["history"]}, hist_feats)
                return
            sd = res.samples_dict
            for j in range(nb):
                got = np.asarray(sd.get(starts[j])) if sd.get(starts[j]) is not None else None
                if got is None or got.shape != want[:, j, :].shape or (got.size and np.max(np.abs(got - want[:, j, :])) > 1e-9):
                    w.violation("samples", "Result.samples_dict", {"band": j, "key": starts[j], "got": None if got is None else got.tolist(), "want": want[:, j, :].tolist()}, hist_feats)
                    return
        # ---- the user's program is not changed by run (register, circuit form it was handed over in)
        if not script["history"]:
            d = fp_diff(fp0, program_fp(prog, with_ids=False))
            if d:
                w.violation("history", "run-leaves-program-untouched", {"diff": d, "final": final}, feats + ["run-mutates"])
                return
        if len(script["history"]) >= 2 or (shots or 1) >= 2 or nb >= 2:
            w.nontrivial.add(hashlib.sha256(json.dumps(script, sort_keys=True).encode()).hexdigest()[:16])
        w.probes["pulses_checked"] += nbins * nb
        if nb > 1:
            w.probes["multi_band"] += 1
        if any(0.0 in p for p in script["params"]):
            w.probes["zero_parameter_in_array"] += 1


def run_foreign_tdm(f, w, simenv, fallback):
    """foreign session: its own TDM program (other bands, measuring another position of each band), run with its own outcomes"""
    import strawberryfields as sf
    from strawberryfields import ops as sfops

    w.fault("foreign_activity:tdm_program")
    N, T = f["N"], f["T"]
    starts = [sum(N[:j]) for j in range(len(N))]
    prog = sf.TDMProgram(N=N if len(N) > 1 else N[0])
    arr = [[0.1 * (t + 1) for t in range(T)]]
    saved = simenv.rng.handler
    simenv.rng.handler = fallback
    try:
        with prog.context(*arr) as (p, q):
            sfops.Sgate(p[0], 0.0) | q[sum(N) - 1]
            for j in range(len(N)):
                sfops.MeasureHomodyne(0.2) | q[starts[j] + (f["measure_offset"] % N[j])]
        sf.Engine("gaussian").run(prog)
    except Exception as ex:  # noqa
        w.log("foreign_error", exc=type(ex).__name__, msg=str(ex)[:200])
    finally:
        simenv.rng.handler = saved


def do_call(prog, h, simenv):
    import strawberryfields as sf

    if h.startswith("unroll:"):
        prog.unroll(int(h.split(":")[1]))
    elif h.startswith("space:"):
        prog.space_unroll(int(h.split(":")[1]))
    elif h == "roll":
        prog.roll()
    elif h == "compile":
        prog.compile(compiler="gaussian")
    elif h.startswith("run:"):
        sf.Engine("gaussian").run(prog, shots=int(h.split(":")[1]))
    elif h == "runS":
        sf.Engine("gaussian").run(prog, shots=None, space_unroll=True)


def features(script, v):
    f = ["bands=%d" % len(script["N"]), "kind=" + script["kind"]]
    if script["history"]:
        f.append("history")
        hs = set(x.split(":")[0] for x in script["history"])
        for k in ("space", "runS", "unroll", "run", "roll", "compile"):
            if k in hs:
                f.append("hist-has=" + k)
    # form the program is in when the observed run starts (same state machine as the generator's)
    form = "rolled"
    sampled_in_space = False
    for c in script["history"]:
        if c.startswith("run:") and form == "space":
            sampled_in_space = True
        if c.startswith("space:"):
            form = "space"
        elif c.startswith("unroll:") and form != "space":
            form = "unrolled"
        elif c == "roll":
            form = "rolled"
        elif c == "runS" and form == "unrolled":
            form = "space"
    if script["final"].get("shots") is not None and (form == "space" or script["final"].get("space_unroll")):
        sampled_in_space = True
    if sampled_in_space:
        f.append("sampling-in-space-unrolled-form")
    if script.get("shift", "default") not in ("default", 1) or (script.get("shift", "default") == 1 and len(script["N"]) > 1):
        f.append("integer-shift-other-than-one-band-step")
    if any(o["op"] not in ("Sgate", "Rgate", "BSgate", "Dgate", "MeasureHomodyne", "MeasureHeterodyne") for o in script["ops"]):
        f.append("gate-the-gaussian-compiler-decomposes")
    if script["final"].get("space_unroll"):
        f.append("final-space-unroll")
    if (script["final"].get("shots") or 1) > 1:
        f.append("final-multishot")
    return f


def shrink(script):
    if script["history"]:
        for cand in ddmin_list(script["history"], 0):
            yield dict(script, history=cand)
    # drop non-measurement ops
    ops = script["ops"]
    gates = [o for o in ops if o["op"] not in MEAS_OPS]
    meas = [o for o in ops if o["op"] in MEAS_OPS]
    for cand in ddmin_list(gates, 0):
        yield dict(script, ops=cand + meas)
    for i, o in enumerate(ops):
        if o.get("dag") or o.get("select") is not None:
            o2 = {k_: v_ for k_, v_ in o.items() if k_ not in ("dag", "select")}
            yield dict(script, ops=ops[:i] + [o2] + ops[i + 1:])
    if script.get("crash_first"):
        yield {k_: v_ for k_, v_ in script.items() if k_ != "crash_first"}
        if script["crash_first"]["exc"] != "InjectedFault":
            yield dict(script, crash_first=dict(script["crash_first"], exc="InjectedFault"))
    if meas != sorted(meas, key=lambda o: o["m"][0]):
        yield dict(script, ops=gates + sorted(meas, key=lambda o: o["m"][0]))
    # fewer time bins
    if script["T"] > 1:
        yield dict(script, T=script["T"] - 1, params=[p[:-1] for p in script["params"]])
    if (script["final"].get("shots") or 1) > 1:
        yield dict(script, final=dict(script["final"], shots=script["final"]["shots"] - 1))
    # numeric parameters instead of arrays
    for i, o in enumerate(ops):
        for pi, e in enumerate(o["p"]):
            if isinstance(e, dict) and o["op"] not in MEAS_OPS:
                o2 = dict(o, p=o["p"][:pi] + [0.4] + o["p"][pi + 1:])
                yield dict(script, ops=ops[:i] + [o2] + ops[i + 1:])
