"""C08 - register and simulator agree on which modes exist, for every history.

Histories of New / Del / use / measure / segment boundaries / reset / invalid operations on one engine, checked against a
reference register model.  Unique-values idiom: every live mode carries a coherent state with its own amplitude and the op
alphabet keeps the global state a product of coherent states, so the model is `index -> amplitude` and any mix-up of rows,
axes or labels shows up as the wrong amplitude under the wrong name.
"""
import cmath
import hashlib
import json
import math
import random

import numpy as np

from .. import env  # noqa
from ..runner import ddmin_list
from ..seams import FaultPlan, InjectedFault
from ..session import SimEnv, SeededOutcomes, state_obs, obs_diff
from ..spec import build_program
from ..world import Violation
from .. import refmodels as rm

ID = "C08"
LEVEL = "exploration"
BUDGET = {"quick": 300, "thorough": 1500}
JOB_TIMEOUT = 240
MINIMISE_S = {"quick": 60, "thorough": 240}
RULE = ("a case = one history on one engine: 1-4 program segments of New(n)/Del/Coherent/Vacuum/Dgate/Rgate/BSgate/LossChannel/"
        "homodyne-measurement steps, run as one list or one call per segment, with injected invalid operations (deleted / never "
        "created / duplicated mode at the front end, a successor that cannot follow, raw backend calls on dead indices), reset() "
        "and crash+recover; *-ent batches: entangled, mixed and non-Gaussian states with the add_mode/del_mode invariant and the twin without register operations; non-trivial iff the history contains a New or Del and either >= 2 segments or a rejected invalid "
        "operation; distinct = distinct history digests")
REAL = ["strawberryfields.program.Program register accounting (_add_subsystems, _delete_subsystems, _test_regrefs, can_follow)",
        "strawberryfields.engine.LocalEngine/BosonicEngine", "backends.base.ModeMap", "Gaussian/Fock/bosonic backends: add_mode, del_mode, state, get_modes",
        "state classes: num_modes, mode_names, quad_expectation, mean_photon"]
STUB = ["numpy.random.* outcomes (homodyne values; irrelevant for product states by construction)"]
ASSUMPTIONS = [
    "two-mode reference: beamsplitter acts on coherent amplitudes as a' = cos(t) a - e^{-i phi} sin(t) b, b' = cos(t) b + e^{i phi} sin(t) a (library convention, documented)",
    "Fock runs keep |alpha| <= 0.45 at cutoff 6-7 so that truncation error is below the comparison tolerance 2e-3 (amplitudes) ",
    "state(modes=subset) is only checked in histories without a prior deletion",
    "an invalid operation must raise *some* exception (the backends raise ValueError where the base class documents IndexError)",
]


def warm(tier):
    sf = env.import_sf()
    from .. import warmup
    warmup.warm_engines(sf)
    warmup.clear_symbolic_caches()


def batches(tier):
    if tier == "quick":
        return [
            {"name": "gaussian", "runs": 7200, "weight": 3},
            {"name": "bosonic", "runs": 3600, "weight": 2, "seed_offset": 100000},
            {"name": "fock", "runs": 1200, "weight": 5, "seed_offset": 200000},
            {"name": "gaussian-crash", "runs": 1800, "weight": 1, "seed_offset": 300000},
            {"name": "fock-crash", "runs": 300, "weight": 2, "seed_offset": 400000},
            {"name": "gaussian-ent", "runs": 1500, "weight": 2, "seed_offset": 500000},
            {"name": "bosonic-ent", "runs": 900, "weight": 2, "seed_offset": 600000},
            {"name": "fock-ent", "runs": 200, "weight": 3, "seed_offset": 700000},
        ]
    return [
        {"name": "gaussian", "runs": 60000, "weight": 3},
        {"name": "bosonic", "runs": 30000, "weight": 2, "seed_offset": 100000},
        {"name": "fock", "runs": 8000, "weight": 6, "seed_offset": 200000},
        {"name": "gaussian-crash", "runs": 20000, "weight": 1, "seed_offset": 300000},
        {"name": "bosonic-crash", "runs": 8000, "weight": 1, "seed_offset": 350000},
        {"name": "fock-crash", "runs": 2500, "weight": 3, "seed_offset": 400000},
        {"name": "gaussian-ent", "runs": 30000, "weight": 2, "seed_offset": 500000},
        {"name": "bosonic-ent", "runs": 15000, "weight": 2, "seed_offset": 600000},
        {"name": "fock-ent", "runs": 4000, "weight": 4, "seed_offset": 700000},
    ]


MAX_EVER = 6


def generate_ent(seed, tier, batch):
    """entangled / squeezed / mixed states (no amplitude model): what is checked is the mode set after every run and, at the
    add_mode / del_mode seam, that creating or deleting a mode leaves the state of all *other* modes exactly as it was"""
    r = random.Random("c08e:%d" % seed)
    backend = batch.split("-")[0]
    max_alive = 3 if backend == "fock" else 5
    opts = {"cutoff_dim": 5, "pure": r.random() < 0.6} if backend == "fock" else {}
    sc = 0.25 if backend == "fock" else 1.0
    nseg = r.choice([1, 2, 3]) if backend != "bosonic" else 1
    n0 = r.randint(1, min(3, max_alive))
    alive, nxt = list(range(n0)), n0
    segs = []
    MAX_EVER = 4 if backend == "fock" else globals()["MAX_EVER"]  # the twin without register operations holds every mode ever created
    for s_ in range(nseg):
        ops = []
        for _ in range(r.randint(2, 9)):
            x = r.random()
            if x >= 0.26 and r.random() < 0.22:
                # gates outside the common alphabet: non-Gaussian Fock primitives, and gates the compilers decompose
                if backend == "fock" and r.random() < 0.6:
                    g = r.choice(["Kgate", "CKgate", "CKgate", "Vgate"]) if len(alive) > 1 else r.choice(["Kgate", "Vgate"])
                    pr = {"Kgate": [round(r.uniform(0.3, 2.5), 3)], "CKgate": [round(r.uniform(0.5, 3.0), 3)], "Vgate": [round(r.uniform(-0.3, 0.3), 3)]}[g]
                else:
                    g = r.choice(["CXgate", "CZgate", "MZgate", "Pgate", "Zgate", "Xgate", "Fourier"]) if len(alive) > 1 else r.choice(["Pgate", "Zgate", "Xgate", "Fourier"])
                    pr = {"CXgate": [round(r.uniform(-0.6, 0.6) * sc, 3)], "CZgate": [round(r.uniform(-0.6, 0.6) * sc, 3)],
                          "MZgate": [round(r.uniform(0.2, 2.8), 3), round(r.uniform(0.2, 2.8), 3)], "Pgate": [round(r.uniform(-0.5, 0.5) * sc, 3)],
                          "Zgate": [round(r.uniform(-0.7, 0.7) * sc, 3)], "Xgate": [round(r.uniform(-0.7, 0.7) * sc, 3)], "Fourier": []}[g]
                ops.append({"op": g, "p": pr, "m": r.sample(alive, 2 if g in ("CKgate", "CXgate", "CZgate", "MZgate") else 1)})
                continue
            if x < 0.14 and nxt < MAX_EVER and len(alive) < max_alive:
                k_new = min(r.choice([1, 1, 2]), MAX_EVER - nxt, max_alive - len(alive))
                ops.append({"op": "New", "n": k_new, "m": list(range(nxt, nxt + k_new))})
                alive += list(range(nxt, nxt + k_new))
                nxt += k_new
            elif x < 0.26 and len(alive) > 1:
                m = r.choice(alive)
                ops.append({"op": "Del", "m": [m]})
                alive.remove(m)
            elif x < 0.45:
                ops.append({"op": "Sgate", "p": [round(r.uniform(-0.6, 0.6) * sc, 3), round(r.uniform(0, 6.2), 3)], "m": [r.choice(alive)]})
            elif x < 0.55:
                ops.append({"op": "Dgate", "p": [round(r.uniform(0, 0.8) * sc, 3), round(r.uniform(0, 6.2), 3)], "m": [r.choice(alive)]})
            elif x < 0.78 and len(alive) > 1:
                g = r.choice(["BSgate", "BSgate", "S2gate"])
                ops.append({"op": g, "p": [round(r.uniform(0.2, 1.4), 3) if g == "BSgate" else round(r.uniform(-0.5, 0.5) * sc, 3), round(r.uniform(0.3, 6.0), 3)],
                            "m": r.sample(alive, 2)})
            elif x < 0.84 and backend != "fock":
                ops.append({"op": "Thermal", "p": [round(r.uniform(0.1, 0.8), 3)], "m": [r.choice(alive)]})
            elif x < 0.90:
                ops.append({"op": "LossChannel", "p": [round(r.uniform(0.3, 1), 3)], "m": [r.choice(alive)]})
            elif x < 0.95 and backend == "bosonic":
                ops.append({"op": "MSgate", "p": [round(r.uniform(-0.3, 0.3), 3), round(r.uniform(0, 3), 3), round(r.uniform(1.0, 2.0), 3), round(r.uniform(0.9, 1.0), 3), r.random() < 0.3],
                            "m": [r.choice(alive)]})
            else:
                ops.append({"op": "MeasureHomodyne", "p": [round(r.uniform(0, 3), 3)], "m": [r.choice(alive)]})
        segs.append({"ops": ops})
    segs[0]["n"] = n0
    return {"backend": backend, "opts": opts, "segs": segs, "call": r.choice(["list", "seq"]), "invalid": [], "reset_between": False, "subset_state": False,
            "tape": seed, "ent": True}


def generate(seed, tier, batch):
    if batch.endswith("-ent"):
        return generate_ent(seed, tier, batch)
    r = random.Random("c08:%d" % seed)
    backend = batch.split("-")[0]
    crash = batch.endswith("-crash")
    big = tier == "thorough"
    max_alive = 3 if backend == "fock" else 6
    if backend == "fock" and big and r.random() < 0.3:
        max_alive = 4
    opts = {}
    if backend == "fock":
        opts = {"cutoff_dim": r.choice([6, 7]), "pure": r.random() < 0.7}
    nseg = r.choice([1, 2, 2, 3, 4]) if backend != "bosonic" else 1  # bosonic multi-segment: known finding, see known_findings.json
    amax = 0.45 if backend == "fock" else 1.2
    alive, nxt = [], 0
    segs = []
    n0 = r.randint(1, min(3, max_alive))
    alive = list(range(n0))
    nxt = n0
    dead = []
    for s in range(nseg):
        ops = []
        L = r.randint(1, 8 if not big else 14)
        for k in range(L):
            x = r.random()
            if x < 0.16 and nxt < MAX_EVER and len(alive) < max_alive:
                k_new = min(r.choice([1, 1, 2, 3]), MAX_EVER - nxt, max_alive - len(alive))
                ops.append({"op": "New", "n": k_new, "m": list(range(nxt, nxt + k_new))})
                alive += list(range(nxt, nxt + k_new))
                nxt += k_new
            elif x < 0.30 and len(alive) > 1:
                ms = r.sample(alive, 1 if r.random() < 0.8 or len(alive) < 3 else 2)
                ops.append({"op": "Del", "m": ms})
                for m in ms:
                    alive.remove(m)
                    dead.append(m)
            elif x < 0.325 and len(alive) <= 2 and nxt + 2 <= MAX_EVER and backend != "bosonic":
                # empty the register completely, then create modes again (the mode map restarts from nothing alive)
                ms = list(alive)
                r.shuffle(ms)
                ops.append({"op": "Del", "m": ms})
                for m in ms:
                    alive.remove(m)
                    dead.append(m)
                k_new = 2 if max_alive >= 2 else 1
                ops.append({"op": "New", "n": k_new, "m": list(range(nxt, nxt + k_new))})
                alive += list(range(nxt, nxt + k_new))
                nxt += k_new
                ops.append({"op": "Coherent", "p": [round(r.uniform(0.1, amax), 3), round(r.uniform(0, 6.2), 3)], "m": [alive[0]]})
            elif x < 0.50:
                ops.append({"op": "Coherent", "p": [round(r.uniform(0.1, amax), 3), round(r.uniform(0, 6.2), 3)], "m": [r.choice(alive)]})
            elif x < 0.60:
                ops.append({"op": "Dgate", "p": [round(r.uniform(0.05, amax / 3), 3), round(r.uniform(0, 6.2), 3)], "m": [r.choice(alive)]})
            elif x < 0.68:
                ops.append({"op": "Rgate", "p": [round(r.uniform(-3, 3), 3)], "m": [r.choice(alive)]})
            elif x < 0.82 and len(alive) > 1:
                ops.append({"op": "BSgate", "p": [round(r.uniform(0.1, 1.5), 3), round(r.uniform(0, 6.2), 3)], "m": r.sample(alive, 2)})
            elif x < 0.88:
                ops.append({"op": "LossChannel", "p": [round(r.uniform(0.2, 1), 3)], "m": [r.choice(alive)]})
            elif x < 0.93:
                ops.append({"op": "Vacuum", "m": [r.choice(alive)]})
            elif x < 0.965 or backend == "bosonic":
                ops.append({"op": "MeasureHomodyne", "p": [round(r.uniform(0, 3), 3)], "m": [r.choice(alive)]})
            else:
                # photon counting: the distribution handed to the sampler must be the one of the measured modes' own data
                ms = r.sample(alive, r.randint(1, min(2, len(alive))))
                ops.append({"op": "MeasureFock", "m": ms})
        segs.append({"ops": ops})
    segs[0]["n"] = n0
    # invalid operations: (segment index after which / inside which they are attempted)
    invalid = []
    for _ in range(r.choice([0, 1, 1, 2, 3])):
        kind = r.choice(["fe_dead", "fe_unknown", "fe_dup", "fe_del_dead", "bad_successor", "indep_successor", "indep_successor", "raw_dead", "raw_unknown", "raw_del_dead",
                         "fe_negative", "append_executed"])
        invalid.append({"kind": kind, "after_seg": r.randrange(nseg), "pick": r.random(), "op": r.choice(["Dgate", "Rgate", "BSgate", "MeasureX", "LossChannel"])})
    script = {"backend": backend, "opts": opts, "segs": segs, "call": r.choice(["list", "seq"]), "invalid": invalid,
              "reset_between": r.random() < 0.25, "subset_state": r.random() < 0.3, "tape": seed, "foreign_first": r.random() < 0.25}
    if not crash and script["call"] == "seq" and nseg >= 2 and r.random() < 0.3:
        script["stranger_at"] = r.randrange(nseg - 1)
    script["successor_alone"] = random.Random("c08s:%d" % seed).random() < 0.5
    if crash:
        script["crash"] = {"kfrac": round(r.random(), 4), "when": r.choice(["before", "after"]),
                           "exc": r.choice(["InjectedFault", "KeyboardInterrupt", "MemoryError"])}
    return script


# ------------------------------------------------------------------------------------------------
class Model:
    """reference register: index -> amplitude (alive) ; dead set ; next index"""

    fock_resets = True

    def __init__(self, n0):
        self.amp = {i: 0j for i in range(n0)}
        self.dead = set()
        self.nxt = n0
        self.deleted_ever = False

    def copy(self):
        m = Model(0)
        m.amp, m.dead, m.nxt, m.deleted_ever = dict(self.amp), set(self.dead), self.nxt, self.deleted_ever
        m.fock_resets = self.fock_resets
        return m

    def apply(self, o):
        k = o["op"]
        if k == "New":
            assert o["m"] == list(range(self.nxt, self.nxt + o["n"])), "model: New indices"
            for i in o["m"]:
                self.amp[i] = 0j
            self.nxt += o["n"]
        elif k == "Del":
            for m in o["m"]:
                del self.amp[m]
                self.dead.add(m)
            self.deleted_ever = True
        elif k == "Coherent":
            self.amp[o["m"][0]] = o["p"][0] * cmath.exp(1j * o["p"][1])
        elif k == "Dgate":
            self.amp[o["m"][0]] += o["p"][0] * cmath.exp(1j * o["p"][1])
        elif k == "Rgate":
            self.amp[o["m"][0]] *= cmath.exp(1j * o["p"][0])
        elif k == "BSgate":
            a, b = o["m"]
            t, ph = o["p"]
            c, s = math.cos(t), math.sin(t)
            x, y = self.amp[a], self.amp[b]
            self.amp[a] = c * x - cmath.exp(-1j * ph) * s * y
            self.amp[b] = c * y + cmath.exp(1j * ph) * s * x
        elif k == "LossChannel":
            self.amp[o["m"][0]] *= math.sqrt(o["p"][0])
        elif k in ("Vacuum", "MeasureHomodyne", "MeasureX"):
            self.amp[o["m"][0]] = 0j
        elif k == "MeasureFock":
            if self.fock_resets:
                for m in o["m"]:
                    self.amp[m] = 0j
        else:
            raise ValueError(k)

    def alive(self):
        return sorted(self.amp)

    def digest(self):
        return hashlib.sha256(json.dumps([[i, round(a.real, 6), round(a.imag, 6)] for i, a in sorted(self.amp.items())] + [sorted(self.dead)]).encode()).hexdigest()[:16]


def amplitudes(st, hbar):
    """per-position complex amplitude and mean photon number through the public state API"""
    out = []
    for i in range(st.num_modes):
        x = st.quad_expectation(i, 0)[0]
        p = st.quad_expectation(i, math.pi / 2)[0]
        n = st.mean_photon(i)[0]
        out.append((complex(x, p) / math.sqrt(2 * hbar), float(np.real(n))))
    return out


def reduced_obs(be, labels):
    """state of the simulator restricted to the modes with the given labels, as comparable arrays (uses only the public state API)"""
    st = be.state()
    names = [st.mode_names[i] for i in range(st.num_modes)]
    pos = [names.index("q[%d]" % l_) for l_ in labels]
    cls = type(st).__name__
    if cls == "BaseGaussianState":
        n_ = st.num_modes
        idx = pos + [p_ + n_ for p_ in pos]
        return {"means": np.asarray(st.means())[idx], "cov": np.asarray(st.cov())[np.ix_(idx, idx)]}
    if cls == "BaseBosonicState":
        idx = [i_ for p_ in pos for i_ in (2 * p_, 2 * p_ + 1)]
        return {"weights": np.array(st.weights()), "means": np.asarray(st.means())[:, idx], "covs": np.asarray(st.covs())[:, idx][:, :, idx]}
    return {"dm": np.asarray(st.reduced_dm(pos))} if pos else {"dm": np.array(1.0)}


def execute_ent(script, w):
    import strawberryfields as sf

    backend = script["backend"]
    feats = ["backend=" + backend, "entangled-states"]
    outcomes = SeededOutcomes(script["tape"], w)
    segs = script["segs"]
    tol = 1e-9 if backend != "fock" else 1e-8

    def on_call(phase, be, name, a, k, out):
        if name not in ("add_mode", "del_mode"):
            return
        if phase == "pre":
            before = [int(x) for x in be.get_modes()]
            gone = []
            if name == "del_mode":
                mm = k.get("modes", a[0] if a else [])
                gone = [int(x) for x in (mm if isinstance(mm, (list, tuple, np.ndarray)) else [mm])]
            keep = [m_ for m_ in before if m_ not in gone]
            be._sfsim_pre = (before, keep, reduced_obs(be, keep) if keep else None)
            return
        before, keep, pre = be._sfsim_pre
        after = [int(x) for x in be.get_modes()]
        if name == "add_mode":
            n_new = int(k.get("n", a[0] if a else 1))
            if after[: len(before)] != before or len(after) != len(before) + n_new or (before and min(after[len(before):]) <= max(before)):
                w.violation("mode-set", "add_mode", {"before": before, "after": after, "n": n_new}, feats)
                raise Violation("mode-set", "add_mode", "stop")
        else:
            if after != keep:
                w.violation("mode-set", "del_mode", {"before": before, "after": after, "deleted": [m_ for m_ in before if m_ not in keep]}, feats)
                raise Violation("mode-set", "del_mode", "stop")
        if keep:
            post = reduced_obs(be, keep)
            for key in pre:
                x, y = np.asarray(pre[key]), np.asarray(post[key])
                if x.shape != y.shape or (x.size and float(np.max(np.abs(x - y))) > tol * max(1.0, float(np.max(np.abs(x))))):
                    w.violation("own-data", name + "-changes-other-modes", {"modes_kept": keep, "what": key,
                                                                          "max_abs_diff": None if x.shape != y.shape else float(np.max(np.abs(x - y)))}, feats)
                    raise Violation("own-data", name + "-changes-other-modes", "stop")
            w.probes["register_op_leaves_other_modes_untouched_checked"] += 1

    simenv = SimEnv(w, outcomes, FaultPlan(), on_call=on_call)
    with simenv:
        alive = list(range(segs[0]["n"]))
        alive_after = []
        for sg in segs:
            for o in sg["ops"]:
                if o["op"] == "New":
                    alive += o["m"]
                elif o["op"] == "Del":
                    alive = [m_ for m_ in alive if m_ not in o["m"]]
            alive_after.append(sorted(alive))
        progs, parent = [], None
        for i, sg in enumerate(segs):
            p = build_program(sg, parent=parent, name="seg%d" % i)
            progs.append(p)
            parent = p
        eng = simenv.engine(backend, script["opts"])

        def check(res, upto):
            want = alive_after[upto]
            got = [int(x) for x in eng.backend.get_modes()]
            reg = [r_.ind for r_ in progs[upto].register]
            st = res.state
            names = [st.mode_names[i] for i in range(st.num_modes)]
            if got != want or reg != want or st.num_modes != len(want) or names != ["q[%d]" % i for i in want]:
                w.violation("mode-set", "after-run", {"backend.get_modes": got, "Program.register": reg, "state.mode_names": names, "want": want, "segment": upto}, feats)
                return False
            w.states.add(hashlib.sha256(json.dumps([backend, want]).encode()).hexdigest()[:16])
            return True

        try:
            if script["call"] == "list":
                w.step("run_list", n=len(progs))
                if not check(eng.run(progs), len(progs) - 1):
                    return
            else:
                for i, p in enumerate(progs):
                    w.step("run", prog=p.name)
                    if not check(eng.run(p), i):
                        return
        except Violation:
            return
        has_regops = any(o["op"] in ("New", "Del") for sg in segs for o in sg["ops"])
        if has_regops and script.get("twin", True):
            # ---- each live mode carries its own data: the same history WITHOUT register operations - every mode that ever exists is there
            # from the start (a created mode starts in vacuum and nothing touches it before its creation), deleted modes simply stay
            # (nothing touches them after their deletion) - run as one program on a fresh engine with the same measurement outcomes.  In the
            # twin the simulator's internal numbering and the user's indices coincide throughout, so the reduced state of the live modes
            # of the twin is what the history must have produced, whatever renumbering went on inside the simulator.
            n_total = segs[0]["n"] + sum(o["n"] for sg in segs for o in sg["ops"] if o["op"] == "New")
            twin_spec = {"n": n_total, "ops": [o for sg in segs for o in sg["ops"] if o["op"] not in ("New", "Del")]}
            final = alive_after[-1]
            w.step("twin_without_register_ops", modes=n_total)
            try:
                st_h = eng.backend.state()
                outcomes.rewind()
                eng2 = simenv.engine(backend, script["opts"])
                res2 = eng2.run(build_program(twin_spec, name="twin"))
                st_t = res2.state
            except Violation:
                return
            if backend == "fock":
                a_ = np.asarray(st_h.reduced_dm(list(range(len(final))))) if final else np.array(1.0)
                b_ = np.asarray(st_t.reduced_dm(final)) if final else np.array(1.0)
                d_ = None if a_.shape == b_.shape and float(np.max(np.abs(a_ - b_))) <= 1e-6 else "reduced density matrices differ by %.3g" % (
                    float(np.max(np.abs(a_ - b_))) if a_.shape == b_.shape else float("nan"))
            else:
                d_ = rm.mixtures_close(rm.snapshot(st_h, sf.hbar), rm.snapshot(st_t, sf.hbar).reduced(final), random.Random(script["tape"]), tol=1e-7)
            if d_:
                w.violation("own-data", "history-vs-twin-without-register-ops", {"diff": d_, "live_modes": final, "modes_ever": n_total}, feats)
                return
            w.probes["twin_without_register_ops_agrees"] += 1
        if has_regops:
            w.nontrivial.add(hashlib.sha256(json.dumps([backend, script["opts"], segs, script["call"]], sort_keys=True).encode()).hexdigest()[:16])


def execute(script, w):
    import strawberryfields as sf
    from strawberryfields import ops as sfops
    from strawberryfields.program_utils import RegRefError, CircuitError

    if script.get("ent"):
        return execute_ent(script, w)
    backend = script["backend"]
    feats = ["backend=" + backend]
    tol = 3e-3 if backend == "fock" else 1e-7
    outcomes = SeededOutcomes(script["tape"], w)
    plan = FaultPlan()
    segs = script["segs"]
    # ---- photon counting at the seam: which distribution is handed over for which modes (checked against the model's own amplitudes)
    live = {"queue": {}, "pending": None}

    def snapshots():
        """amplitudes of the measured modes just before every MeasureFock of the history, in program order, keyed by the measured tuple
        (legal reorderings keep a measurement ordered with everything that touches its modes, so these are well defined)"""
        q_ = {}
        mm = Model(segs[0]["n"])
        for sg in segs:
            for o_ in sg["ops"]:
                if o_["op"] == "MeasureFock":
                    q_.setdefault(tuple(o_["m"]), []).append({m_: mm.amp[m_] for m_ in o_["m"]})
                mm.apply(o_)
        return q_

    def poisson_joint(alphas, D):
        import itertools
        ps = []
        for a_ in alphas:
            lam = abs(a_) ** 2
            ps.append(np.array([math.exp(-lam) * lam ** k_ / math.factorial(k_) for k_ in range(D)]))
        out = ps[0]
        for p_ in ps[1:]:
            out = np.multiply.outer(out, p_)
        return out.ravel()

    def on_call(phase, be, name, a, k, out):
        if name != "measure_fock" or phase != "pre":
            return
        modes = [int(m_) for m_ in k.get("modes", a[0] if a else None)]
        lst = live["queue"].get(tuple(modes), [])
        live["pending"] = (modes, lst.pop(0) if lst else None)

    def count_handler(name, args, kwargs, native):
        if backend == "fock" and name == "choice" and live["pending"] is not None and live["pending"][1] is not None:
            (modes, snap), live["pending"] = live["pending"], None
            D = script["opts"]["cutoff_dim"]
            p = np.asarray(kwargs.get("p"), dtype=float)
            ms_sorted = sorted(modes)
            want = poisson_joint([snap[m_] for m_ in ms_sorted], D)
            if len(p) != len(want) or np.max(np.abs(p / p.sum() - want / want.sum())) > 5e-3:
                w.violation("own-data", "photon-count-distribution", {"measured": modes, "model_amplitudes": [snap[m_] for m_ in ms_sorted],
                                                                     "handed_to_rng_head": p[:6].tolist(), "expected_head": want[:6].tolist()}, feats)
                raise Violation("own-data", "photon-count-distribution", "stop")
            w.probes["photon_count_distribution_checked"] += 1
            return int(np.argmax(p))
        return outcomes(name, args, kwargs, native)

    def hafnian_stub(cov, samples, mean=None, **kw):
        w.seams["walrus:hafnian_sample_state"] += 1
        pend, live["pending"] = live["pending"], None
        modes, snap = pend if pend is not None else (None, None)
        if modes is not None and snap is not None:
            # Gaussian backend, product of coherent states: vacuum covariance and the measured modes' own means, xxpp over the measured order
            al = [snap[m_] for m_ in modes]
            want_mean = np.array([2 * a_.real for a_ in al] + [2 * a_.imag for a_ in al])
            got_mean = np.zeros(2 * len(modes)) if mean is None else np.asarray(mean, dtype=float)
            if np.asarray(cov).shape != (2 * len(modes),) * 2 or np.max(np.abs(np.asarray(cov) - np.eye(2 * len(modes)))) > 1e-7 or np.max(np.abs(got_mean - want_mean)) > 1e-7:
                w.violation("own-data", "photon-count-distribution", {"measured": modes, "model_amplitudes": al, "mean_handed_to_sampler": got_mean.tolist(),
                                                                     "expected_mean": want_mean.tolist()}, feats)
                raise Violation("own-data", "photon-count-distribution", "stop")
            w.probes["photon_count_distribution_checked"] += 1
        return np.zeros((samples, len(cov) // 2), dtype=int)

    simenv = SimEnv(w, outcomes, plan, on_call=on_call)
    has_newdel = any(o["op"] in ("New", "Del") for s in segs for o in s["ops"])
    rejected = [0]

    def observe(eng, res, model, progs, where):
        """all agreement checks after a run"""
        st = res.state
        alive = model.alive()
        got_modes = list(eng.backend.get_modes())
        if [int(m) for m in got_modes] != alive:
            w.violation("mode-set", "backend.get_modes", {"got": [int(m) for m in got_modes], "want": alive, "where": where}, feats)
            return False
        reg = [r.ind for r in progs[-1].register]
        if reg != alive:
            w.violation("mode-set", "Program.register", {"got": reg, "want": alive, "where": where}, feats)
            return False
        if st.num_modes != len(alive):
            w.violation("mode-set", "state.num_modes", {"got": st.num_modes, "want": len(alive), "where": where}, feats)
            return False
        names = [st.mode_names[i] for i in range(st.num_modes)]
        want_names = ["q[%d]" % i for i in alive]
        if names != want_names:
            w.violation("labels", "state.mode_names", {"got": names, "want": want_names, "where": where}, feats)
            return False
        amps = amplitudes(st, sf.hbar)
        for pos, idx in enumerate(alive):
            a, n = amps[pos]
            want = model.amp[idx]
            if abs(a - want) > tol or abs(n - abs(want) ** 2) > 2 * tol:
                w.violation("own-data", "per-mode amplitude", {"mode": idx, "position": pos, "got": a, "want": want, "got_n": n, "where": where,
                                                                "all_got": [x[0] for x in amps], "all_want": [model.amp[i] for i in alive]}, feats)
                return False
        w.states.add(model.digest())
        return True

    def build_seg(i, parent):
        return build_program(segs[i], parent=parent, name="seg%d" % i)

    with simenv:
        import strawberryfields.backends.gaussianbackend.backend as _gb
        if script.get("foreign_first"):
            # another engine of the same backend went through its own New/Del history earlier in the process
            w.fault("foreign_activity:engine_with_other_mode_history")
            try:
                fp_ = sf.Program(3)
                with fp_.context as q:
                    sfops.Coherent(0.2, 0.1) | q[2]
                    sfops.Del | q[1]
                    fa, fb_ = sfops.New(2)
                    sfops.Coherent(0.1, 0.5) | fb_
                    sfops.Del | q[0]
                simenv.engine(backend, script["opts"]).run(fp_)
            except Exception as ex:  # noqa
                w.log("foreign_error", exc=type(ex).__name__, msg=str(ex)[:200])
        simenv.rng.handler = count_handler
        _gb.hafnian_sample_state = hafnian_stub  # restored by SimEnv.__exit__
        Model.fock_resets = backend != "gaussian"
        # models after each segment
        models = []
        m = Model(segs[0]["n"])
        for s in segs:
            for o in s["ops"]:
                m.apply(o)
            models.append(m.copy())

        crash = script.get("crash")
        progs = []
        eng = simenv.engine(backend, script["opts"])
        plan.disarm()
        plan.n = 0
        try:
            parent = None
            for i in range(len(segs)):
                p = build_seg(i, parent)
                progs.append(p)
                parent = p
        except Violation:
            return
        except Exception as ex:  # noqa
            w.violation("valid-history-accepted", "front-end", {"exc": type(ex).__name__, "msg": str(ex)[:300]}, feats)
            return

        def run_history(eng, upto=None, how=None):
            """run segments [0, upto) ; returns list of (res) per call"""
            how = how or script["call"]
            outcomes.rewind()
            live["queue"] = snapshots()
            pl = progs[: (upto if upto is not None else len(progs))]
            if how == "list":
                w.step("run_list", n=len(pl))
                return eng.run(pl)
            res = None
            for p in pl:
                w.step("run", prog=p.name)
                res = eng.run(p)
            return res

        # ---- fault-free pass: check after every segment when called one by one, or once at the end
        if crash is None:
            if script["call"] == "seq":
                outcomes.rewind()
                live["queue"] = snapshots()
                for i, p in enumerate(progs):
                    w.step("run", prog=p.name)
                    where = "after segment %d" % i
                    try:
                        if script.get("stranger_at") == i:
                            # the valid segment and a program that is no successor of it in ONE call: the segment is executed, the stranger is
                            # refused, and the session continues with the real successor (no reset) - engine and simulator must still agree
                            stranger = sf.Program(len(p.reg_refs) + 1, name="stranger")
                            with stranger.context as q_:
                                sfops.Dgate(0.1) | q_[0]
                            w.fault("invalid_op:list_with_stranger")
                            try:
                                eng.run([p, stranger])
                            except (Violation, InjectedFault, KeyboardInterrupt, MemoryError):
                                raise
                            except Exception as ex:  # noqa
                                w.log("rejected", what="list_with_stranger", exc=type(ex).__name__)
                                rejected[0] += 1
                            else:
                                w.violation("invalid-rejected", "accepted", {"what": "run([segment, program with another register])"}, feats + ["kind=list_with_stranger"])
                                return

                            class _R:
                                state = eng.backend.state()
                            res = _R
                            where = "after run([segment %d, stranger]) was refused at the stranger" % i
                        else:
                            res = eng.run(p)
                    except Violation:
                        return
                    except Exception as ex:  # noqa
                        w.violation("valid-history-accepted", "run", {"segment": i, "exc": type(ex).__name__, "msg": str(ex)[:300]}, feats)
                        return
                    if not observe(eng, res, models[i], progs[: i + 1], where):
                        return
                    if not invalid_ops(script, w, simenv, eng, progs[: i + 1], models[i], i, feats, rejected, observe, res):
                        return
            else:
                try:
                    res = run_history(eng)
                except Violation:
                    return
                except Exception as ex:  # noqa
                    w.violation("valid-history-accepted", "run", {"exc": type(ex).__name__, "msg": str(ex)[:300]}, feats)
                    return
                if not observe(eng, res, models[-1], progs, "after run([..])"):
                    return
                if not invalid_ops(script, w, simenv, eng, progs, models[-1], len(segs) - 1, feats, rejected, observe, res):
                    return
            # subset state.  After a deletion the Gaussian and Fock simulators read `modes` as positions among the live modes (and label the
            # result with the register indices of those modes); the bosonic one takes register indices - asked for only on registers without
            # deletions there
            if script.get("subset_state") and (not models[-1].deleted_ever or backend != "bosonic") and len(models[-1].alive()) > 1:
                alive = models[-1].alive()
                rs_ = random.Random(script["tape"] + 1)
                sub = random.Random(script["tape"]).sample(alive, rs_.randint(1, len(alive)))
                if rs_.random() < 0.4 or len(sub) == len(alive):
                    pass  # in the order drawn: any order may be asked for (cyclic orders of three or more modes included)
                else:
                    sub = sorted(sub)
                if sub == alive and len(alive) > 1:
                    sub = sub[1:] + sub[:1]
                st = eng.backend.state(modes=sub if backend == "bosonic" else [alive.index(i_) for i_ in sub])
                if backend == "bosonic":
                    sub = sorted(sub)  # documented for this backend: "mode indices are sorted in ascending order"; the others: "in the given order"
                names = [st.mode_names[i] for i in range(st.num_modes)]
                amps = amplitudes(st, sf.hbar)
                if names != ["q[%d]" % i for i in sub] or any(abs(amps[k][0] - models[-1].amp[i]) > tol for k, i in enumerate(sub)):
                    w.violation("own-data", "state(modes=subset)", {"subset": sub, "names": names, "got": [a[0] for a in amps],
                                                                    "want": [models[-1].amp[i] for i in sub]}, feats)
                    return
            # reset, then the same history again on the same engine (mode map must be back to the initial one)
            if script.get("reset_between"):
                w.step("reset")
                eng.reset()
                # documented: reset clears the measured values of all registers of previously run programs - deleted modes included
                stale = [(p_.name, k_) for p_ in progs for k_, r_ in p_.reg_refs.items() if r_.val is not None]
                if stale:
                    w.violation("reset", "measured-values-cleared", {"still_holding_a_value": stale[:6]}, feats)
                    return
                try:
                    res = run_history(eng, how="list" if script["call"] == "seq" else "seq")
                except Violation:
                    return
                except Exception as ex:  # noqa
                    w.violation("valid-history-accepted", "run-after-reset", {"exc": type(ex).__name__, "msg": str(ex)[:300]}, feats)
                    return
                if not observe(eng, res, models[-1], progs, "after reset + rerun"):
                    return
            # a successor program as the FIRST program of a computation (same engine after reset()): the simulator must be set up with the
            # register the successor starts from, not with the one its ancestors started from.  Only when that register has no holes
            # (a backend is initialised with modes 0..n-1) and the segment does no photon counting (whose snapshots belong to the full history)
            if (script.get("successor_alone") and len(segs) >= 2 and not any(o_["op"] == "Del" for sg_ in segs[:-1] for o_ in sg_["ops"])
                    and not any(o_["op"] == "MeasureFock" for o_ in segs[-1]["ops"])):
                w.step("reset_then_successor_alone")
                try:
                    eng.reset()
                    outcomes.rewind()
                    live["queue"] = {}
                    res_ = eng.run(progs[-1])
                except Violation:
                    return
                except Exception as ex:  # noqa
                    w.violation("valid-history-accepted", "successor-as-first-program", {"exc": type(ex).__name__, "msg": str(ex)[:300]}, feats)
                    return
                m_ = Model(len(models[-2].alive()))
                for o_ in segs[-1]["ops"]:
                    m_.apply(o_)
                if not observe(eng, res_, m_, progs, "successor program run alone after reset()"):
                    return
                w.probes["successor_program_as_first_program"] += 1
            if has_newdel and (len(segs) >= 2 or rejected[0] > 0):
                w.nontrivial.add(hashlib.sha256(json.dumps([backend, script["opts"], segs, script["call"]], sort_keys=True).encode()).hexdigest()[:16])
            return

        # ---- crash batch: interrupted history, documented recovery, full history again
        run_history(eng)  # count calls
        ncalls = plan.n
        k = min(ncalls - 1, int(crash["kfrac"] * ncalls))
        eng = simenv.engine(backend, script["opts"])
        plan.n = 0
        plan.arm(k, crash["when"], crash["exc"])
        fired = False
        try:
            run_history(eng)
        except (InjectedFault, KeyboardInterrupt, MemoryError):
            fired = plan.fired
        plan.disarm()
        if not fired:
            w.probes["crash_not_reached"] += 1
            return
        if not (k == 0 and crash["when"] == "before"):
            w.fault("recover_reset")
            try:
                eng.reset()
            except Violation:
                return
            except Exception as ex:  # noqa
                w.violation("recovery", "reset-after-crash", {"exc": type(ex).__name__, "msg": str(ex)[:200], "k": k}, feats + ["crash"])
                return
        try:
            res = run_history(eng)
        except Violation:
            return
        except Exception as ex:  # noqa
            w.violation("recovery", "run-after-reset", {"exc": type(ex).__name__, "msg": str(ex)[:300], "k": k, "when": crash["when"]}, feats + ["crash"])
            return
        if not observe(eng, res, models[-1], progs, "after crash at call %d (%s) + reset + rerun" % (k, crash["when"])):
            w.violations[-1]["features"] = sorted(set(w.violations[-1]["features"]) | {"crash"})
            return
        if has_newdel:
            w.nontrivial.add(hashlib.sha256(json.dumps([backend, segs, k, crash["when"]], sort_keys=True).encode()).hexdigest()[:16])


def invalid_ops(script, w, simenv, eng, progs, model, seg_index, feats, rejected, observe, last_res):
    """attempt the invalid operations scheduled after this segment; each must raise and leave everything unchanged"""
    import strawberryfields as sf
    from strawberryfields import ops as sfops

    backend = script["backend"]
    for inv in script["invalid"]:
        if inv["after_seg"] != seg_index:
            continue
        kind = inv["kind"]
        alive = model.alive()
        dead = sorted(model.dead)
        pick = inv["pick"]
        before = state_obs(eng.backend.state())
        modes_before = list(eng.backend.get_modes())
        raised = None
        what = None
        try:
            if kind.startswith("fe_"):
                # a successor program whose construction attempts the invalid command
                p = sf.Program(progs[-1])
                n_before = None
                with p.context as q:
                    regs = {r.ind: r for r in p.register}
                    n_before = len(p.circuit)
                    try:
                        if kind == "fe_dead":
                            if not dead:
                                continue
                            idx = dead[int(pick * len(dead))]
                            target = p.reg_refs[idx]
                            what = "gate on deleted mode %d" % idx
                            _apply_gate(sfops, inv["op"], [target] + ([regs[alive[0]]] if inv["op"] == "BSgate" else []))
                        elif kind == "fe_unknown":
                            idx = model.nxt + int(pick * 3)
                            what = "gate on never-created mode %d" % idx
                            _apply_gate(sfops, inv["op"], [idx] + ([regs[alive[0]]] if inv["op"] == "BSgate" else []))
                        elif kind == "fe_negative":
                            idx = -(1 + int(pick * 3))
                            what = "gate on subsystem %d (negative integers are not subsystem indices)" % idx
                            _apply_gate(sfops, inv["op"] if inv["op"] != "BSgate" else "Dgate", [idx])
                        elif kind == "fe_dup":
                            what = "two-mode gate on the same mode twice"
                            sfops.BSgate(0.3, 0.1) | (regs[alive[0]], regs[alive[0]])
                        elif kind == "fe_del_dead":
                            if not dead:
                                continue
                            idx = dead[int(pick * len(dead))]
                            what = "Del of deleted mode %d" % idx
                            sfops.Del | p.reg_refs[idx]
                    except Exception as ex:  # noqa
                        raised = ex
                    if raised is not None and len(p.circuit) != n_before:
                        w.violation("invalid-rejected", "front-end-appended-anyway", {"what": what}, feats)
                        return False
                if raised is None:
                    # accepted by the front end: the engine/backend must reject it when run
                    try:
                        eng.run(p)
                    except Exception as ex:  # noqa
                        raised = ex
                    if raised is None:
                        w.violation("invalid-rejected", "accepted", {"what": what, "kind": kind}, feats)
                        return False
                    # a rejected *run* may have half-executed; the property demands rejection, state is re-checked below only for front-end rejections
                    rejected[0] += 1
                    w.probes["invalid_rejected_at_run"] += 1
                    return True_after_failed_run(w)
            elif kind == "append_executed":
                # the user re-enters the context of the program the engine has just executed and appends a register operation: an executed
                # program is locked; accepting the command would change the shared register without telling the simulator
                tgt = progs[-1]
                n_before = len(tgt.circuit)
                reg_before = [(k_, r_.active) for k_, r_ in tgt.reg_refs.items()]
                what = "%s appended to an already executed program" % ("Del" if pick < 0.5 or len(alive) < 1 else "New")
                try:
                    with tgt.context as q_:
                        if pick < 0.5 and alive:
                            sfops.Del | tgt.reg_refs[alive[0]]
                        else:
                            sfops.New(1)
                except Exception as ex:  # noqa
                    raised = ex
                if raised is None or len(tgt.circuit) != n_before or [(k_, r_.active) for k_, r_ in tgt.reg_refs.items()] != reg_before:
                    w.violation("invalid-rejected", "accepted" if raised is None else "front-end-appended-anyway", {"what": what, "kind": kind}, feats + ["kind=" + kind])
                    return False
            elif kind == "bad_successor":
                # a program whose initial register does not match the engine's current one
                n_wrong = len(progs[-1].reg_refs) + 1
                p = sf.Program(n_wrong)
                with p.context as q:
                    sfops.Dgate(0.1) | q[0]
                what = "program with %d fresh modes after a history with register %s" % (n_wrong, alive)
                try:
                    eng.run(p)
                except Exception as ex:  # noqa
                    raised = ex
            elif kind == "indep_successor":
                # a successor written independently (Program(n) instead of Program(prev)) for a register whose live modes are 0..n-1 but
                # which has deleted indices above them.  Either it is refused, or - if accepted - creating a mode in it must still give
                # the next never-used index on both sides (a mode keeps its index for life, register and simulator agree).
                if alive != list(range(len(alive))) or not dead:
                    continue
                p = sf.Program(len(alive))
                with p.context as q:
                    (newmode,) = sfops.New(1)
                    sfops.Coherent(0.31, 0.7) | newmode
                what = "independent Program(%d) after a history with deleted indices %s" % (len(alive), dead)
                w.fault("invalid_op:" + kind)
                try:
                    res2 = eng.run(p)
                except Exception as ex:  # noqa
                    rejected[0] += 1
                    w.log("rejected", what=kind, exc=type(ex).__name__)
                    # refused: nothing may have changed
                    if [int(x) for x in eng.backend.get_modes()] != [int(x) for x in modes_before]:
                        w.violation("invalid-rejected", "mode-set-changed", {"what": what}, feats + ["kind=" + kind])
                        return False
                    continue
                w.probes["independent_successor_accepted"] += 1
                reg = [r_.ind for r_ in p.register]
                sim = [int(x) for x in eng.backend.get_modes()]
                want = alive + [model.nxt]
                if reg != sim or sim != want:
                    w.violation("mode-set", "independent-successor-then-New", {"what": what, "Program.register": reg, "backend.get_modes": sim, "never-reused-index-rule": want},
                                feats + ["kind=" + kind])
                    return False
                return True  # the engine has moved on; later scheduled invalid ops of this segment are skipped
            elif kind.startswith("raw_"):
                be = eng.backend
                if kind == "raw_dead":
                    if not dead:
                        continue
                    idx = dead[int(pick * len(dead))]
                    what = "backend.displacement on deleted mode %d" % idx
                    try:
                        be.displacement(0.2, 0.1, idx) if inv["op"] != "Rgate" else be.rotation(0.3, idx)
                    except Exception as ex:  # noqa
                        raised = ex
                elif kind == "raw_unknown":
                    idx = model.nxt + int(pick * 3)
                    what = "backend call on never-created mode %d" % idx
                    try:
                        be.displacement(0.2, 0.1, idx) if inv["op"] != "LossChannel" else be.loss(0.5, idx)
                    except Exception as ex:  # noqa
                        raised = ex
                elif kind == "raw_del_dead":
                    if not dead:
                        continue
                    idx = dead[int(pick * len(dead))]
                    what = "backend.del_mode on deleted mode %d" % idx
                    try:
                        be.del_mode([idx])
                    except Exception as ex:  # noqa
                        raised = ex
                elif kind == "raw_dup":
                    what = "backend.beamsplitter on the same mode twice"
                    try:
                        be.beamsplitter(0.3, 0.1, alive[0], alive[0])
                    except Exception as ex:  # noqa
                        raised = ex
        except Violation:
            raise
        if what is None:
            continue
        w.fault("invalid_op:" + kind)
        if raised is None:
            w.violation("invalid-rejected", "accepted", {"what": what, "kind": kind}, feats + ["kind=" + kind])
            return False
        if isinstance(raised, (InjectedFault, KeyboardInterrupt, MemoryError)):
            raise raised
        rejected[0] += 1
        w.log("rejected", what=kind, exc=type(raised).__name__)
        # unchanged afterwards
        if [int(x) for x in eng.backend.get_modes()] != [int(x) for x in modes_before]:
            w.violation("invalid-rejected", "mode-set-changed", {"what": what, "before": modes_before, "after": list(eng.backend.get_modes())}, feats + ["kind=" + kind])
            return False
        d = obs_diff(before, state_obs(eng.backend.state()), 1e-9)
        if d:
            w.violation("invalid-rejected", "state-changed", {"what": what, "diff": d}, feats + ["kind=" + kind])
            return False
    return True


def True_after_failed_run(w):
    return True


def _apply_gate(sfops, name, targets):
    if name == "BSgate":
        sfops.BSgate(0.3, 0.1) | (targets[0], targets[1])
    elif name == "Rgate":
        sfops.Rgate(0.3) | targets[0]
    elif name == "MeasureX":
        sfops.MeasureX | targets[0]
    elif name == "LossChannel":
        sfops.LossChannel(0.5) | targets[0]
    else:
        sfops.Dgate(0.2, 0.1) | targets[0]


def features(script, v):
    f = ["backend=" + script["backend"], "segments=%d" % len(script["segs"])]
    if len(script["segs"]) > 1:
        f.append("multi-segment")
    allops = [o["op"] for s in script["segs"] for o in s["ops"]]
    for k in ("New", "Del", "BSgate", "LossChannel"):
        if k in allops:
            f.append("has=" + k)
    if script["backend"] == "fock":
        f.append("pure=%s" % script["opts"].get("pure", True))
    if script.get("crash"):
        f.append("crash")
    return f


def _legal(script):
    segs = script["segs"]
    n0 = segs[0].get("n")
    if not n0:
        return False
    alive, nxt = set(range(n0)), n0
    for s in segs:
        for o in s["ops"]:
            if o["op"] == "New":
                if o["m"] != list(range(nxt, nxt + o["n"])):
                    return False
                alive |= set(o["m"])
                nxt += o["n"]
            elif o["op"] == "Del":
                if not set(o["m"]) <= alive:
                    return False
                alive -= set(o["m"])
            elif not set(o["m"]) <= alive:
                return False
        if not alive:
            return False  # a segment must end with at least one mode (the register may be empty in between)
    return True


def _renumber(segs):
    """after dropping a New (or changing the initial size) later indices shift: renumber every mode so that the initial modes and the
    News stay consecutive in creation order; ops on modes that no longer exist are dropped.  Returns new segs (or None if nothing is left)"""
    n0 = segs[0].get("n")
    mapping = {i: i for i in range(n0)}
    nxt = n0
    out = []
    for sg in segs:
        ops = []
        for o in sg["ops"]:
            if o["op"] == "New":
                new_m = list(range(nxt, nxt + o["n"]))
                for old_i, new_i in zip(o["m"], new_m):
                    mapping[old_i] = new_i
                nxt += o["n"]
                ops.append(dict(o, m=new_m))
            else:
                if not all(m_ in mapping for m_ in o["m"]):
                    continue
                ops.append(dict(o, m=[mapping[m_] for m_ in o["m"]]))
        out.append(dict(sg, ops=ops))
    return out


def shrink(script):
    segs = script["segs"]
    if len(segs) > 1:
        c = dict(script, segs=segs[:-1], invalid=[i for i in script["invalid"] if i["after_seg"] < len(segs) - 1])
        if _legal(c):
            yield c
        # merge the last two segments
        merged = segs[:-2] + [dict(segs[-2], ops=segs[-2]["ops"] + segs[-1]["ops"])]
        c = dict(script, segs=merged, invalid=[dict(i, after_seg=min(i["after_seg"], len(merged) - 1)) for i in script["invalid"]])
        if _legal(c):
            yield c
    for i, s in enumerate(segs):
        for cand in ddmin_list(s["ops"], 0):
            c = dict(script, segs=segs[:i] + [dict(s, ops=cand)] + segs[i + 1:])
            if _legal(c):
                yield c
            else:
                # dropping a New (or a Del that a later op relied on): renumber / drop dependents and try that
                c2 = dict(script, segs=_renumber(c["segs"]))
                if _legal(c2):
                    yield c2
    if script["invalid"]:
        for cand in ddmin_list(script["invalid"], 0):
            yield dict(script, invalid=cand)
    for key in ("reset_between", "subset_state", "successor_alone"):
        if script.get(key):
            yield dict(script, **{key: False})
    if "stranger_at" in script:
        yield {k_: v_ for k_, v_ in script.items() if k_ != "stranger_at"}
    if script["call"] == "seq":
        yield dict(script, call="list")
    if script["backend"] == "fock" and not script["opts"].get("pure", True):
        yield dict(script, opts=dict(script["opts"], pure=True))
