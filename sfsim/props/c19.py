"""C19 - GBS application helpers (claimed for the randomised routines).

The simulator owns the RNG seam under clique.grow/swap/shrink/search, subgraph.resize/search/_update_subgraphs_list and
similarity.orbit_to_sample/event_to_sample: at every numpy.random.choice / shuffle the scheduler picks any element the call allows,
i.e. every tie-break the routine could ever see.  Oracle: *reachable-set equality against the documented rule* - a brute-force model
of each routine's documentation computes, by search over all tie choices, the set of results the rule allows; the library, driven
through every draw sequence (when <= cap, seeded sample beyond), must produce exactly that set.
"""
import hashlib
import itertools
import json
import math
import random
from fractions import Fraction

import numpy as np

from .. import env  # noqa
from ..runner import ddmin_list
from ..seams import RandomSeam
from ..world import Violation, HarnessError

ID = "C19"
LEVEL = "exploration"
EVAL_UNIT = "steps"
EVAL_UNIT_TEXT = "(input, routine, draw sequence) executions; simulated_runs counts inputs"
BUDGET = {"quick": 200, "thorough": 900}
JOB_TIMEOUT = 180
MINIMISE_S = {"quick": 40, "thorough": 120}
RULE = ("a case = one routine call on a seeded input (graphs of 4-12 nodes incl. disconnected, complete, empty, planted cliques; seed cliques (incl. the empty one) / "
        "subgraphs; weight vectors with ties; all node_select modes; orbits/events up to 10 photons, 12 modes - 20-40 modes in a quarter of the similarity runs) driven through every sequence of RNG "
        "tie-breaks when there are <= cap of them (seeded sample beyond); non-trivial iff at least one RNG decision had >= 2 legal choices; distinct = "
        "distinct sha256(input, routine, draw sequence)")
REAL = ["strawberryfields.apps.clique (grow, swap, shrink, search, c_0, c_1, is_clique)", "strawberryfields.apps.subgraph (resize, search, _update_dict, _update_subgraphs_list)",
        "strawberryfields.apps.similarity (orbit_to_sample, event_to_sample, sample_to_orbit, sample_to_event, orbits, event_cardinality, orbit_cardinality)"]
STUB = ["numpy.random.choice / shuffle: the scheduler enumerates the legal picks (tape odometer)"]
ASSUMPTIONS = [
    "documented rules: grow/swap add a candidate of maximal degree / weight (ties uniform); shrink/resize remove a node of minimal degree within the subgraph, "
    "ties by minimal weight then uniform; resize grows by the node with most connections to the subgraph, ties by maximal weight then uniform",
    "'uniform' means every tied candidate is reachable; probabilities are checked only for event_to_sample (vector handed to the RNG)",
    "the pure enumeration functions are exercised only where they reach the RNG seam",
]

CAP = {"quick": 120, "thorough": 500}


def warm(tier):
    env.import_sf()
    import strawberryfields.apps.clique  # noqa
    import strawberryfields.apps.subgraph  # noqa
    import strawberryfields.apps.similarity  # noqa


def batches(tier):
    if tier == "quick":
        return [{"name": "clique", "runs": 8000, "weight": 3}, {"name": "subgraph", "runs": 4500, "weight": 3, "seed_offset": 100000},
                {"name": "similarity", "runs": 4000, "weight": 1, "seed_offset": 200000}]
    return [{"name": "clique", "runs": 40000, "weight": 3}, {"name": "subgraph", "runs": 20000, "weight": 3, "seed_offset": 100000},
            {"name": "similarity", "runs": 15000, "weight": 1, "seed_offset": 200000}]


# ------------------------------------------------------------------------------------------------
def gen_graph(r, nmax):
    n = r.randint(3, nmax)
    kind = r.random()
    edges = set()
    if kind < 0.6:
        p = r.uniform(0.2, 0.9)
        edges = {(a, b) for a in range(n) for b in range(a + 1, n) if r.random() < p}
    elif kind < 0.7:
        edges = {(a, b) for a in range(n) for b in range(a + 1, n)}
    elif kind < 0.75:
        edges = set()
    else:
        # planted clique + sparse rest, possibly disconnected
        k = r.randint(2, max(2, n - 1))
        cl = r.sample(range(n), k)
        edges = {(min(a, b), max(a, b)) for a in cl for b in cl if a != b}
        edges |= {(a, b) for a in range(n) for b in range(a + 1, n) if r.random() < 0.15}
    labels = list(range(n))
    if r.random() < 0.3:
        r.shuffle(labels)  # insertion order of nodes differs from numeric order
    return {"n": n, "order": labels, "edges": sorted(edges)}


def generate(seed, tier, batch):
    r = random.Random("c19:%d" % seed)
    big = tier == "thorough"
    if batch == "clique":
        g = gen_graph(r, 12 if big else 9)
        n = g["n"]
        sel = r.choice(["uniform", "degree", "weight", "weight"])
        wts = [r.choice([1, 1, 2, 3]) for _ in range(n)] if sel == "weight" else None
        if wts and r.random() < 0.35:
            # large weights that differ by one unit: distinct numbers, not ties (a tolerance-based comparison would merge them)
            base = r.choice([100000, 1000000, 3.0e7])
            wts = [base + w_ for w_ in wts]
        routine = r.choice(["grow", "swap", "shrink", "shrink", "search"])
        if routine == "shrink" and sel == "degree":
            sel = "uniform"
        start = sorted(r.sample(range(n), r.randint(1, n)))
        if random.Random("c19e:%d" % seed).random() < 0.1:
            start = []  # the empty clique (a sample without clicks): every node of the graph can be added to it
        via_ = random.Random("c19v:%d" % seed).random() < 0.4
        return {"via_samples": via_, "kind": "clique", "graph": g, "routine": routine, "select": sel, "weights": wts, "start": start, "iterations": r.randint(1, 3), "sseed": seed,
                "edit_between": r.random() < 0.3, "foreign_first": r.random() < 0.2}
    if batch == "subgraph":
        g = gen_graph(r, 10 if big else 8)
        n = g["n"]
        sel = r.choice(["uniform", "weight", "weight"])
        wts = [r.choice([1, 1, 2, 3]) for _ in range(n)] if sel == "weight" else None
        if wts and r.random() < 0.35:
            base = r.choice([100000, 1000000, 3.0e7])
            wts = [base + w_ for w_ in wts]
        routine = r.choice(["resize", "resize", "update_list", "search", "search"])
        start = sorted(r.sample(range(n), r.randint(1, n)))
        lo = r.randint(1, n)
        hi = r.randint(lo, n)
        via_ = random.Random("c19v:%d" % seed).random() < 0.4
        return {"via_samples": via_, "kind": "subgraph", "graph": g, "routine": routine, "select": sel, "weights": wts, "start": start, "min": lo, "max": hi,
                "max_count": r.randint(1, 3), "subs": [sorted(r.sample(range(n), r.randint(1, n))) for _ in range(r.randint(1, 4))], "sseed": seed,
                "edit_between": r.random() < 0.5, "foreign_first": r.random() < 0.2}
    # similarity
    routine = r.choice(["orbit_to_sample", "event_to_sample"])
    modes = r.randint(1, 12 if big else 8)
    if routine == "event_to_sample" and r.random() < 0.25:
        modes = r.randint(20, 40)  # where floating point factorials stop being exact
    if routine == "orbit_to_sample":
        k = r.randint(1, min(modes, 5))
        orbit = sorted([r.randint(1, 4) for _ in range(k)], reverse=True)
        return {"kind": "similarity", "routine": routine, "orbit": orbit, "modes": modes, "sseed": seed}
    photons = r.randint(0, 10 if big else 6)
    mcount = r.randint(1, max(1, photons)) if photons else 1
    return {"kind": "similarity", "routine": routine, "photons": photons, "max_count": mcount, "modes": modes, "sseed": seed}


# ------------------------------------------------------------------------------------------------
class Odometer:
    """tape-driven RNG handler: follows `tape`, then picks 0; records the width of every decision"""

    def __init__(self, tape):
        self.tape = list(tape)
        self.i = 0
        self.widths = []
        self.taken = []
        self.calls = []  # (name, summary of args) for oracle use

    def pick(self, width):
        c = self.tape[self.i] if self.i < len(self.tape) else 0
        if c >= width:
            c = width - 1
        self.i += 1
        self.widths.append(width)
        self.taken.append(c)
        return c

    def next_tape(self):
        t = list(self.taken)
        while t:
            if t[-1] + 1 < self.widths[len(t) - 1]:
                t[-1] += 1
                return t
            t.pop()
        return None

    def __call__(self, name, args, kwargs, native):
        if name == "choice":
            a = args[0]
            arr = list(range(int(a))) if isinstance(a, (int, np.integer)) else list(np.asarray(a).tolist())
            p = kwargs.get("p")
            self.calls.append(("choice", arr, None if p is None else np.asarray(p, dtype=float).tolist()))
            if p is not None:
                cand = [i for i, v in enumerate(p) if v > 0]
                j = cand[self.pick(len(cand))]
            else:
                j = self.pick(len(arr))
            out = arr[j] if not isinstance(a, (int, np.integer)) else j
            if not isinstance(a, (int, np.integer)):
                out = np.asarray(a)[j]
            return out
        if name == "shuffle":
            x = args[0]
            n = len(x)
            self.calls.append(("shuffle", n, None))
            # choose a permutation through n-1 decisions (Fisher-Yates), each enumerable
            for i in range(n - 1, 0, -1):
                j = self.pick(i + 1)
                x[i], x[j] = x[j], x[i]
            return None
        if name in ("randint", "random_integers"):
            low = int(args[0])
            high = args[1] if len(args) > 1 else kwargs.get("high")
            if high is None:
                low, high = 0, low
            high = int(high) + (1 if name == "random_integers" else 0)
            n_ = max(1, high - low)
            self.calls.append(("randint", n_, None))
            if n_ <= 64:
                return low + self.pick(n_)
            cand = sorted({0, 1, n_ // 3, n_ // 2, n_ - 2, n_ - 1})
            return low + cand[self.pick(len(cand))]
        if name in ("random", "random_sample", "rand", "uniform"):
            # a uniform draw: a handful of representative values incl. both ends
            lo_, hi_ = (float(args[0]), float(args[1])) if name == "uniform" and len(args) > 1 else (0.0, 1.0)
            vals = [0.0, 1e-12, 0.25, 0.5, 0.75, 1.0 - 1e-12]
            self.calls.append((name, len(vals), None))
            return lo_ + (hi_ - lo_) * vals[self.pick(len(vals))]
        if name == "permutation":
            x = list(range(int(args[0]))) if isinstance(args[0], (int, np.integer)) else list(args[0])
            for i in range(len(x) - 1, 0, -1):
                j = self.pick(i + 1)
                x[i], x[j] = x[j], x[i]
            return np.array(x)
        raise HarnessError("C19: unexpected numpy.random.%s" % name)


def mkgraph(g):
    import networkx as nx

    G = nx.Graph()
    G.add_nodes_from(g["order"])
    G.add_edges_from(g["edges"])
    return G


def adj(g):
    a = {v: set() for v in range(g["n"])}
    for x, y in g["edges"]:
        a[x].add(y)
        a[y].add(x)
    return a


def is_clique(a, nodes):
    nodes = list(nodes)
    return all(nodes[j] in a[nodes[i]] for i in range(len(nodes)) for j in range(i + 1, len(nodes)))


# ---- reference models: set of results the documented rule allows ---------------------------------
def weight_of(script, v):
    """weights are given positionally in graph.nodes order"""
    return script["weights"][script["graph"]["order"].index(v)]


def ref_grow(script, a, start):
    sel = script["select"]
    out = set()
    seen = set()

    def rec(cl):
        key = frozenset(cl)
        if key in seen:
            return
        seen.add(key)
        c0 = [v for v in a if v not in cl and all(v in a[u] for u in cl)]
        if not c0:
            out.add(tuple(sorted(cl)))
            return
        if sel == "uniform":
            cand = c0
        elif sel == "degree":
            mx = max(len(a[v]) for v in c0)
            cand = [v for v in c0 if len(a[v]) == mx]
        else:
            mx = max(weight_of(script, v) for v in c0)
            cand = [v for v in c0 if weight_of(script, v) == mx]
        for v in cand:
            rec(cl | {v})

    rec(set(start))
    return out


def ref_swap(script, a, start):
    sel = script["select"]
    cl = set(start)
    c1 = []
    for v in a:
        if v in cl:
            continue
        non = [u for u in cl if u not in a[v]]
        if len(non) == 1:
            c1.append((non[0], v))
    if not c1:
        return {tuple(sorted(cl))}
    if sel == "uniform":
        cand = c1
    elif sel == "degree":
        mx = max(len(a[x[1]]) for x in c1)
        cand = [x for x in c1 if len(a[x[1]]) == mx]
    else:
        mx = max(weight_of(script, x[1]) for x in c1)
        cand = [x for x in c1 if weight_of(script, x[1]) == mx]
    return {tuple(sorted((cl - {x[0]}) | {x[1]})) for x in cand}


def ref_shrink(script, a, start, stop):
    """remove nodes of minimal degree (within the subgraph), ties by minimal weight, until stop(nodes)"""
    sel = script["select"]
    out = set()
    seen = set()

    def rec(nodes):
        key = frozenset(nodes)
        if key in seen:
            return
        seen.add(key)
        if stop(nodes):
            out.add(tuple(sorted(nodes)))
            return
        deg = {v: len(a[v] & nodes) for v in nodes}
        mn = min(deg.values())
        cand = [v for v in nodes if deg[v] == mn]
        if sel == "weight":
            mw = min(weight_of(script, v) for v in cand)
            cand = [v for v in cand if weight_of(script, v) == mw]
        for v in cand:
            rec(nodes - {v})

    rec(frozenset(start))
    return out


def ref_resize(script, a, start, lo, hi):
    """set of allowed result dicts {size: nodes}: grow chain and shrink chain are independent"""
    sel = script["select"]
    n = len(a)
    start = frozenset(start)
    s0 = len(start)
    base = {s0: tuple(sorted(start))} if lo <= s0 <= hi else {}

    def chains(nodes, grow):
        """all chains (list of node sets) reachable, as tuples of frozensets"""
        res = set()

        def rec(cur, acc):
            size = len(cur)
            if (grow and size >= hi) or (not grow and size <= lo):
                res.add(tuple(acc))
                return
            if grow:
                comp = [c for c in a if c not in cur]
                if not comp:
                    res.add(tuple(acc))
                    return
                deg = {c: len(a[c] & cur) for c in comp}
                mx = max(deg.values())
                cand = [c for c in comp if deg[c] == mx]
                if sel == "weight":
                    mw = max(weight_of(script, c) for c in cand)
                    cand = [c for c in cand if weight_of(script, c) == mw]
                for c in cand:
                    nxt = cur | {c}
                    rec(nxt, acc + [nxt])
            else:
                deg = {v: len(a[v] & cur) for v in cur}
                mn = min(deg.values())
                cand = [v for v in cur if deg[v] == mn]
                if sel == "weight":
                    mw = min(weight_of(script, v) for v in cand)
                    cand = [v for v in cand if weight_of(script, v) == mw]
                for v in cand:
                    nxt = cur - {v}
                    rec(nxt, acc + [nxt])

        rec(start, [])
        return res

    gch = chains(start, True) if hi > s0 else {()}
    sch = chains(start, False) if lo < s0 else {()}
    out = set()
    for gc in gch:
        for sc in sch:
            d = dict(base)
            for ns in list(gc) + list(sc):
                if lo <= len(ns) <= hi:
                    d[len(ns)] = tuple(sorted(ns))
            out.add(tuple(sorted(d.items())))
    return out


# ------------------------------------------------------------------------------------------------
def drive(w, script, call, cap, seeded_extra=40, guard=None):
    """run `call(handler)` under every tape (<= cap), returns (set of results, complete?)"""
    results = {}
    tape = []
    n_exec = 0
    complete = False
    case_key = hashlib.sha256(json.dumps(script, sort_keys=True).encode()).hexdigest()[:16]
    while True:
        od = Odometer(tape)
        with RandomSeam(w, od):
            try:
                res = call()
            except Violation:
                raise
        n_exec += 1
        if guard is not None:
            changed = guard()
            if changed:
                w.violation("inputs-untouched", "argument-modified-by-call", {"what": changed, "draws": list(od.taken)}, ["routine=" + script["routine"]])
                raise Violation("inputs-untouched", "argument-modified-by-call", "stop")
        w.steps += 1
        key = json.dumps(res, sort_keys=True, default=str)
        results.setdefault(key, (res, list(od.taken), od))
        if any(x > 1 for x in od.widths):
            w.nontrivial.add(hashlib.sha256(("%s:%s" % (case_key, od.taken)).encode()).hexdigest()[:16])
        nt = od.next_tape()
        if nt is None:
            complete = True
            break
        if n_exec >= cap:
            break
        tape = nt
    if not complete:
        # seeded sample of further draw sequences
        rr = random.Random(script["sseed"])
        for _ in range(seeded_extra):
            od = Odometer([rr.randrange(8) for _ in range(64)])
            with RandomSeam(w, od):
                res = call()
            w.steps += 1
            key = json.dumps(res, sort_keys=True, default=str)
            results.setdefault(key, (res, list(od.taken), od))
        w.probes["enumeration_capped"] += 1
    else:
        w.probes["enumeration_complete"] += 1
    return results, complete


def execute(script, w):
    """graph routines are run twice when `edit_between` is set: the second time after the *same graph object* was edited in place
    (a history: results must describe the graph as it is now, whatever an earlier call may have remembered about the object)"""
    if script["kind"] in ("clique", "subgraph") and script.get("edit_between") and script["graph"]["edges"] and script["routine"] != "search" or \
            (script["kind"] == "clique" and script.get("edit_between") and script["graph"]["edges"]):
        g = script["graph"]
        G = mkgraph(g)
        a = adj(g)
        _execute_once(script, w, G, a, ())
        if w.violations:
            return
        rr = random.Random(script["sseed"] + 17)
        x_, y_ = rr.choice(g["edges"])
        G.remove_edge(x_, y_)
        a[x_].discard(y_)
        a[y_].discard(x_)
        w.step("edit_graph_in_place", removed=[x_, y_])
        w.probes["graph_edited_in_place_between_calls"] += 1
        g2 = dict(g, edges=[e for e in g["edges"] if tuple(e) != (x_, y_)])
        _execute_once(dict(script, graph=g2, edit_between=False), w, G, a, ("history=edit-graph-in-place",))
        return
    if script["kind"] in ("clique", "subgraph") and script.get("foreign_first"):
        # the same routine was called on another graph object with the same nodes but the complementary edges earlier in the process
        g = script["graph"]
        allp = {(x_, y_) for x_ in range(g["n"]) for y_ in range(x_ + 1, g["n"])}
        comp = sorted(allp - {tuple(e) for e in g["edges"]})
        w.fault("foreign_activity:same_routine_other_graph")
        w_tmp = type(w)(w.seed, w.prop)
        try:
            _execute_once(dict(script, graph=dict(g, edges=comp), edit_between=False), w_tmp, None, None, ())
        except Exception as ex:  # noqa
            w.log("foreign_error", exc=type(ex).__name__, msg=str(ex)[:200])
    _execute_once(script, w, None, None, ())


def _execute_once(script, w, G_in, a_in, feats_extra):
    from strawberryfields.apps import clique, subgraph, similarity

    tier_cap = CAP["quick"] if script.get("cap") is None else script["cap"]
    kind = script["kind"]
    feats = ["routine=" + script["routine"]] + list(feats_extra)
    if kind in ("clique", "subgraph"):
        feats.append("select=" + script["select"])
        g = script["graph"]
        a = a_in if a_in is not None else adj(g)
        G = G_in if G_in is not None else mkgraph(g)
        sel = script["select"]
        node_select = script["weights"] if sel == "weight" else sel
    if kind in ("clique", "subgraph") and script.get("via_samples") and script["start"]:
        # the seed set reaches the routine the way GBS samples do: a click pattern over the modes (mode i = i-th node of graph.nodes) converted
        # by sample.to_subgraphs - which must name exactly the clicked nodes, whatever order the nodes were inserted in
        from strawberryfields.apps import sample as sfsample
        rc_ = random.Random("c19c:%d" % script.get("sseed", 0))
        resolved = rc_.random() < 0.5  # photon-number-resolving detectors: a clicked mode may report 2 or 3 photons - it is still one node
        clicks = [(rc_.choice([1, 1, 2, 3]) if resolved else 1) if v_ in script["start"] else 0 for v_ in g["order"]]
        try:
            got_ = [int(x_) for x_ in sfsample.to_subgraphs([clicks], G)[0]]
        except Exception as ex:  # noqa
            w.violation("structure", "to_subgraphs-raises", {"exc": type(ex).__name__, "msg": str(ex)[:200], "node_order": g["order"], "clicks": clicks}, feats)
            return
        if sorted(got_) != sorted(script["start"]):
            w.violation("structure", "to_subgraphs-names-the-clicked-nodes", {"node_order": g["order"], "clicks": clicks, "got": got_, "clicked_nodes": sorted(script["start"])}, feats)
            return
        w.probes["seed_set_through_to_subgraphs"] += 1
        script = dict(script, start=got_)
    if kind == "clique":
        routine = script["routine"]
        start = script["start"]
        if routine in ("grow", "swap", "search"):
            # the input must be a clique: shrink the start set greedily (deterministically) first
            cl = []
            for v in start:
                if all(v in a[u] for u in cl):
                    cl.append(v)
            start = cl
        if routine == "grow":
            allowed = ref_grow(script, a, start)
            call = lambda: tuple(clique.grow(list(start), G, node_select=node_select))  # noqa
        elif routine == "swap":
            allowed = ref_swap(script, a, start)
            call = lambda: tuple(clique.swap(list(start), G, node_select=node_select))  # noqa
        elif routine == "shrink":
            allowed = ref_shrink(script, a, start, lambda nodes: is_clique(a, nodes))
            call = lambda: tuple(clique.shrink(list(start), G, node_select=node_select))  # noqa
        else:
            # documented: phases of greedy growth and plateau search (swap), `iterations` times or until a swap changes nothing,
            # every phase choosing nodes by the given rule
            allowed = set()

            def rec_search(cl, it):
                for grown in ref_grow(script, a, list(cl)):
                    for swapped in ref_swap(script, a, list(grown)):
                        if set(grown) == set(swapped) or it - 1 == 0:
                            allowed.add(tuple(sorted(swapped)))
                        else:
                            rec_search(swapped, it - 1)

            rec_search(tuple(start), script["iterations"])
            call = lambda: tuple(clique.search(list(start), G, script["iterations"], node_select=node_select))  # noqa
        nodes0, edges0 = list(G.nodes), sorted(tuple(sorted(e)) for e in G.edges)
        ws0 = list(node_select) if isinstance(node_select, list) else None

        def guard():
            if list(G.nodes) != nodes0 or sorted(tuple(sorted(e)) for e in G.edges) != edges0:
                return {"graph": "modified"}
            if ws0 is not None and list(node_select) != ws0:
                return {"weights": "modified"}
            return None

        results, complete = drive(w, script, call, tier_cap, guard=guard)
        got = {tuple(v[0]) for v in results.values()}
        for res in got:
            if not set(res) <= set(range(g["n"])) or not is_clique(a, res) or list(res) != sorted(res):
                w.violation("structure", routine + "-returns-clique", {"result": list(res), "start": start}, feats)
                return
            if routine == "grow" and any(v not in res and all(v in a[u] for u in res) for v in a):
                w.violation("structure", "grow-ends-with-empty-c0", {"result": list(res)}, feats)
                return
            if routine in ("grow", "search") and len(res) < len(start):
                w.violation("structure", routine + "-not-smaller", {"result": list(res), "start": start}, feats)
                return
            if routine == "swap" and len(res) != len(start):
                w.violation("structure", "swap-same-size", {"result": list(res), "start": start}, feats)
                return
            if routine == "shrink" and not set(res) <= set(start):
                w.violation("structure", "shrink-subset-of-input", {"result": list(res), "start": start}, feats)
                return
        if allowed is not None:
            extra = got - allowed
            if extra:
                w.violation("documented-rule", routine + "-result-not-allowed", {"result": sorted(extra)[0], "allowed": sorted(allowed)[:6], "start": start,
                                                                                "draws": results[json.dumps(sorted(extra)[0], default=str)][1] if False else None}, feats)
                return
            if complete and allowed - got:
                w.violation("documented-rule", routine + "-allowed-result-unreachable", {"missing": sorted(allowed - got)[0], "reached": sorted(got)[:6], "start": start}, feats)
                return
        return
    if kind == "subgraph":
        routine = script["routine"]
        n = g["n"]
        if routine == "resize":
            start, lo, hi = script["start"], script["min"], script["max"]
            allowed = ref_resize(script, a, start, lo, hi)
            call = lambda: sorted((int(k), tuple(int(x) for x in v)) for k, v in subgraph.resize(list(start), G, lo, hi, node_select=node_select).items())  # noqa
            try:
                results, complete = drive(w, script, call, tier_cap)
            except ValueError as ex:
                # documented input validation (sizes out of range etc.)
                w.probes["resize_rejected_input"] += 1
                return
            got = {tuple(v[0]) for v in results.values()}
            for res in got:
                for size, nodes in res:
                    if len(nodes) != size or len(set(nodes)) != size or not set(nodes) <= set(range(n)) or not (lo <= size <= hi) or list(nodes) != sorted(nodes):
                        w.violation("structure", "resize-sizes-and-subsets", {"result": res, "min": lo, "max": hi}, feats)
                        return
                sizes = [s for s, _ in res]
                if sizes != list(range(lo, hi + 1)):
                    w.violation("structure", "resize-covers-requested-sizes", {"sizes": sizes, "min": lo, "max": hi, "start": start}, feats)
                    return
            extra = got - allowed
            if extra:
                w.violation("documented-rule", "resize-result-not-allowed", {"result": sorted(extra)[0], "n_allowed": len(allowed), "allowed_sample": sorted(allowed)[:3],
                                                                            "start": start, "min": lo, "max": hi}, feats)
                return
            if complete and allowed - got:
                w.violation("documented-rule", "resize-allowed-result-unreachable", {"missing": sorted(allowed - got)[0], "start": start, "min": lo, "max": hi}, feats)
                return
            return
        if routine == "update_list":
            # _update_subgraphs_list keeps the max_count densest, coin on equal density
            import networkx as nx

            def dens(nodes):
                k = len(nodes)
                e = sum(1 for i, u in enumerate(nodes) for v in nodes[i + 1:] if v in a[u])
                return 0.0 if k < 2 else 2.0 * e / (k * (k - 1))

            size = len(script["subs"][0])
            subs = [sorted(set(s_))[:size] for s_ in script["subs"]]
            subs = [s_ for s_ in subs if len(s_) == size]
            mc = script["max_count"]

            def call():
                l = []
                for s_ in subs:
                    subgraph._update_subgraphs_list(l, (nx.density(G.subgraph(s_)), list(s_)), mc)
                return [(round(float(d_), 9), tuple(x)) for d_, x in l]

            results, complete = drive(w, script, call, tier_cap)
            distinct = []
            for s_ in subs:
                if s_ not in distinct:
                    distinct.append(s_)
            best = sorted((round(dens(s_), 9) for s_ in distinct), reverse=True)[:mc]
            for res, _, _ in results.values():
                ds = [d_ for d_, _ in res]
                if len(res) != min(mc, len(distinct)) or ds != sorted(ds, reverse=True) or any(abs(d_ - round(dens(list(x)), 9)) > 1e-9 for d_, x in res):
                    w.violation("structure", "update-list-sorted-with-correct-densities", {"result": res, "max_count": mc}, feats)
                    return
                if [round(x, 9) for x in ds] != best:
                    w.violation("documented-rule", "update-list-keeps-densest", {"kept": ds, "best": best, "subs": subs}, feats)
                    return
            return
        # search: structural checks on the returned dictionary
        lo, hi, mc = script["min"], script["max"], script["max_count"]
        subs = [s_ for s_ in script["subs"]]

        def call():
            d = subgraph.search([list(s_) for s_ in subs], G, lo, hi, max_count=mc, node_select=node_select)
            return sorted((int(k), [(round(float(x[0]), 9), tuple(int(y) for y in x[1])) for x in v]) for k, v in d.items())

        try:
            results, complete = drive(w, script, call, min(tier_cap, 40), seeded_extra=10)
        except ValueError:
            w.probes["search_rejected_input"] += 1
            return
        all_results = [v[0] for v in results.values()]
        if script.get("edit_between") and g["edges"]:
            # history: the same graph *object* is edited in place and searched again - results must describe the edited graph
            rr = random.Random(script["sseed"])
            x_, y_ = rr.choice(g["edges"])
            G.remove_edge(x_, y_)
            a[x_].discard(y_)
            a[y_].discard(x_)
            w.step("edit_graph_in_place", removed=[x_, y_])
            w.probes["graph_edited_in_place_between_calls"] += 1
            try:
                results2, _ = drive(w, script, call, min(tier_cap, 20), seeded_extra=5)
            except ValueError:
                return
            all_results = [v[0] for v in results2.values()]
            feats = feats + ["history=edit-graph-in-place"]
        for res in all_results:
            for size, lst in res:
                if not (lo <= size <= hi) or len(lst) > mc:
                    w.violation("structure", "search-sizes-and-counts", {"size": size, "n": len(lst), "max_count": mc}, feats)
                    return
                for d_, nodes in lst:
                    k = len(nodes)
                    e = sum(1 for i, u in enumerate(nodes) for v in nodes[i + 1:] if v in a[u])
                    want = 0.0 if k < 2 else 2.0 * e / (k * (k - 1))
                    if k != size or len(set(nodes)) != k or not set(nodes) <= set(range(n)) or abs(d_ - want) > 1e-9:
                        w.violation("structure", "search-subsets-and-densities", {"size": size, "nodes": nodes, "density": d_, "true_density": want}, feats)
                        return
                if [x[0] for x in lst] != sorted([x[0] for x in lst], reverse=True):
                    w.violation("structure", "search-density-ranked", {"size": size, "densities": [x[0] for x in lst]}, feats)
                    return
        return
    # ---- similarity
    routine = script["routine"]
    modes = script["modes"]
    if routine == "orbit_to_sample":
        orbit = script["orbit"]
        if len(orbit) > modes:
            try:
                similarity.orbit_to_sample(list(orbit), modes)
            except ValueError:
                w.probes["orbit_rejected_too_few_modes"] += 1
                return
            w.violation("structure", "orbit_to_sample-accepts-too-long-orbit", {"orbit": orbit, "modes": modes}, feats)
            return
        user_orbit = list(orbit)  # the caller's own list, handed over as it is: it must come back unchanged
        call = lambda: tuple(int(x) for x in similarity.orbit_to_sample(user_orbit, modes))  # noqa
        results, complete = drive(w, script, call, tier_cap, guard=lambda: None if user_orbit == list(orbit) else {"orbit": list(orbit), "now": list(user_orbit)})
        got = {tuple(v[0]) for v in results.values()}
        for res in got:
            if len(res) != modes or sorted((x for x in res if x), reverse=True) != sorted(orbit, reverse=True):
                w.violation("consistency", "orbit_to_sample", {"sample": res, "orbit": orbit, "modes": modes}, feats)
                return
            back = similarity.sample_to_orbit(list(res))
            if list(back) != sorted(orbit, reverse=True):
                w.violation("consistency", "sample_to_orbit(orbit_to_sample(o))", {"orbit": orbit, "sample": res, "back": list(back)}, feats)
                return
        if complete:
            # every arrangement of the orbit over the modes is reachable by some shuffle
            want = set(itertools.permutations(list(orbit) + [0] * (modes - len(orbit))))
            if got != want:
                w.violation("documented-rule", "orbit_to_sample-all-arrangements-reachable", {"reached": len(got), "arrangements": len(want)}, feats)
                return
        return
    photons, mc = script["photons"], script["max_count"]
    call_log = {}

    def call():
        return tuple(int(x) for x in similarity.event_to_sample(photons, mc, modes))

    try:
        results, complete = drive(w, script, call, tier_cap)
    except ValueError:
        w.probes["event_rejected"] += 1
        # legal iff the event is impossible: more photons than max_count * modes
        if photons <= mc * modes:
            w.violation("structure", "event_to_sample-rejects-possible-event", {"photons": photons, "max_count": mc, "modes": modes}, feats)
        return
    # exact orbit cardinalities by integer arithmetic
    def parts(nn, maxpart, maxlen):
        if nn == 0:
            yield []
            return
        if maxlen == 0:
            return
        for first in range(min(nn, maxpart), 0, -1):
            for rest in parts(nn - first, first, maxlen - 1):
                yield [first] + rest

    orbs = [p for p in parts(photons, mc, modes)]
    def card(o):
        from collections import Counter
        c = Counter(o)
        num = math.factorial(modes)
        den = math.factorial(modes - len(o))
        for v in c.values():
            den *= math.factorial(v)
        return num // den
    cards = {tuple(o): card(o) for o in orbs}
    total = sum(cards.values())
    for res, taken, od in results.values():
        if len(res) != modes or sum(res) != photons or (res and max(res) > mc):
            w.violation("consistency", "event_to_sample", {"sample": res, "photons": photons, "max_count": mc, "modes": modes}, feats)
            return
        ev = similarity.sample_to_event(list(res), mc)
        if ev != photons:
            w.violation("consistency", "sample_to_event(event_to_sample(e))", {"sample": res, "event": ev, "photons": photons}, feats)
            return
        # the probability vector handed to the RNG: cardinality / total, aligned with the library's own orbit order
        for c in od.calls:
            if c[0] == "choice" and c[2] is not None:
                p = c[2]
                # orbits that do not fit into `modes` may be listed with probability 0
                want = sorted(Fraction(c_, total) for c_ in cards.values())
                pp = sorted(x for x in p if x != 0)
                if len(pp) != len(want) or any(abs(float(x) - y) > 1e-12 for x, y in zip(want, pp)):
                    w.violation("exact-counts", "event_to_sample-orbit-probabilities", {"handed_to_rng": p, "exact": [float(x) for x in want], "photons": photons,
                                                                                        "max_count": mc, "modes": modes}, feats)
                    return
                break
    # the enumeration the probability vector is built from: every partition of the photon number exactly once, exact cardinalities
    lib_orbits = [tuple(o) for o in similarity.orbits(photons)] if photons else []
    all_parts = sorted(tuple(p_) for p_ in parts(photons, photons, photons)) if photons else []
    if sorted(lib_orbits) != all_parts or len(set(lib_orbits)) != len(lib_orbits) or any(list(o) != sorted(o, reverse=True) for o in lib_orbits):
        w.violation("exact-counts", "orbits-enumeration", {"photons": photons, "library": lib_orbits[:12], "n_library": len(lib_orbits), "n_exact": len(all_parts)}, feats)
        return
    for o in lib_orbits:
        want_c = card(list(o)) if len(o) <= modes else 0
        got_c = similarity.orbit_cardinality(list(o), modes)
        if int(got_c) != want_c:
            w.violation("exact-counts", "orbit_cardinality", {"orbit": list(o), "modes": modes, "library": int(got_c), "exact": want_c}, feats)
            return
    ec = similarity.event_cardinality(photons, mc, modes)
    if int(ec) != total:
        w.violation("exact-counts", "event_cardinality", {"library": int(ec), "exact": total, "photons": photons, "max_count": mc, "modes": modes}, feats)
        return


def features(script, v):
    f = ["routine=" + script["routine"]]
    if "select" in script:
        f.append("select=" + script["select"])
    return f


def shrink(script):
    if "graph" in script:
        g = script["graph"]
        for cand in ddmin_list(g["edges"], 0):
            yield dict(script, graph=dict(g, edges=cand))
        if len(script.get("start", [])) > 1:
            for cand in ddmin_list(script["start"], 1):
                yield dict(script, start=cand)
        if g["order"] != sorted(g["order"]):
            yield dict(script, graph=dict(g, order=sorted(g["order"])))
        if script.get("weights") and any(x != 1 for x in script["weights"]):
            for i, x in enumerate(script["weights"]):
                if x != 1:
                    yield dict(script, weights=script["weights"][:i] + [1] + script["weights"][i + 1:])
    if script.get("subs") and len(script["subs"]) > 1:
        for cand in ddmin_list(script["subs"], 1):
            yield dict(script, subs=cand)
    if script.get("modes", 0) > 1:
        yield dict(script, modes=script["modes"] - 1)
    if script.get("photons", 0) > 0:
        yield dict(script, photons=script["photons"] - 1, max_count=max(1, min(script["max_count"], script["photons"] - 1)))
