"""C10 - symbolic parameters behave exactly like the values they stand for.

The simulator fixes every measurement outcome in advance (unique value per (mode, k-th measurement of that mode)), so a
*numeric twin* of the program - the same spec with every expression replaced by the number an independent evaluator
computes from the tape and the bindings - exists before anything runs.  Symbolic program and twin must agree through
compile / optimize / run; misuse must raise ParameterError; none of this may depend on foreign programs in the process.
"""
import copy
import hashlib
import json
import math
import random

import numpy as np

from .. import env  # noqa
from ..gen import rnd
from ..runner import ddmin_list
from ..seams import FaultPlan
from ..session import SimEnv, SeededOutcomes, state_obs, obs_diff
from ..spec import build_program, ev, meas_deps, free_deps, is_sym, program_fp, fp_diff
from ..world import Violation

ID = "C10"
LEVEL = "exploration"
BUDGET = {"quick": 300, "thorough": 1500}
JOB_TIMEOUT = 240
MINIMISE_S = {"quick": 60, "thorough": 240}
RULE = ("a case = one program chain (1-3 segments) whose operation parameters are expression trees over free parameters, measured "
        "parameters (incl. values measured in earlier segments and re-measured modes) and constants, executed symbolically and as its numeric "
        "twin under the same injected outcome tape, through run(compile_options) or an explicit compile(compiler, optimize) first; plus misuse "
        "runs (use before measurement, unbound, unknown name) and foreign programs reusing the same mode indices / parameter names at seeded "
        "points; fockcount / hetero batches: photon counts (also inside array-valued kets) and complex heterodyne outcomes as parameters; non-trivial iff a non-constant symbolic expression was evaluated at run time; distinct = distinct script digests")
REAL = ["strawberryfields.parameters (MeasuredParameter, FreeParameter, par_evaluate, par_funcs)", "strawberryfields.program (params, bind_params, compile, optimize)",
        "strawberryfields.ops (every parametrised operation, decompositions with symbolic arguments)", "strawberryfields.engine (segments, value hand-over)",
        "compilers gaussian / fock / bosonic / gaussian_unitary", "Gaussian, Fock, bosonic simulators"]
STUB = ["numpy.random.* : homodyne outcomes are dictated by the tape (unique per (mode, k))"]
ASSUMPTIONS = [
    "the independent evaluator (sfsim.spec.ev) defines what an expression 'stands for'",
    "Fock runs compare symbolic and twin without optimisation (merging changes the truncation error of the twin only)",
    "foreign programs reuse mode indices always, free-parameter names only in the dedicated batch (known finding KF-C10-freeparam-shared)",
]

TOL = 1e-7


def warm(tier):
    sf = env.import_sf()
    from .. import warmup
    warmup.warm_engines(sf)
    warmup.clear_symbolic_caches()


def batches(tier):
    if tier == "quick":
        return [
            {"name": "gaussian", "runs": 1950, "weight": 4},
            {"name": "bosonic", "runs": 650, "weight": 2, "seed_offset": 100000},
            {"name": "fock", "runs": 260, "weight": 4, "seed_offset": 200000},
            {"name": "misuse", "runs": 780, "weight": 1, "seed_offset": 300000},
            {"name": "foreign", "runs": 780, "weight": 2, "seed_offset": 400000},
            {"name": "fockcount", "runs": 240, "weight": 2, "seed_offset": 500000},
            {"name": "hetero", "runs": 700, "weight": 1, "seed_offset": 600000},
            {"name": "loaded", "runs": 500, "weight": 1, "seed_offset": 700000},
            {"name": "reuse", "runs": 600, "weight": 1, "seed_offset": 800000},
        ]
    return [
        {"name": "gaussian", "runs": 30000, "weight": 4},
        {"name": "bosonic", "runs": 10000, "weight": 2, "seed_offset": 100000},
        {"name": "fock", "runs": 4000, "weight": 5, "seed_offset": 200000},
        {"name": "misuse", "runs": 10000, "weight": 1, "seed_offset": 300000},
        {"name": "foreign", "runs": 12000, "weight": 2, "seed_offset": 400000},
        {"name": "fockcount", "runs": 4000, "weight": 2, "seed_offset": 500000},
        {"name": "hetero", "runs": 8000, "weight": 1, "seed_offset": 600000},
        {"name": "loaded", "runs": 6000, "weight": 1, "seed_offset": 700000},
        {"name": "reuse", "runs": 6000, "weight": 1, "seed_offset": 800000},
    ]


# ------------------------------------------------------------------------------------------------
FNS = ["sin", "cos", "tanh", "exp", "atan", "sinh", "cosh", "Abs"]


def gen_expr(r, depth, frees, meas, scale=1.0):
    x = r.random()
    if depth == 0 or x < 0.3:
        y = r.random()
        if y < 0.4 and meas:
            return {"meas": r.choice(meas)}
        if y < 0.75 and frees:
            return {"free": r.choice(frees)}
        return rnd(r, -scale, scale)
    if x < 0.42:
        return {"neg": gen_expr(r, depth - 1, frees, meas, scale)}
    if x < 0.62:
        return {"add": [gen_expr(r, depth - 1, frees, meas, scale), gen_expr(r, depth - 1, frees, meas, scale)]}
    if x < 0.82:
        return {"mul": [gen_expr(r, depth - 1, frees, meas, scale), gen_expr(r, depth - 1, frees, meas, scale)]}
    if x < 0.9:
        return {"pow": [gen_expr(r, depth - 1, frees, meas, scale), 2]}
    fn = r.choice(FNS)
    arg = gen_expr(r, depth - 1, frees, meas, scale)
    if fn in ("exp", "sinh", "cosh"):
        # keep magnitudes moderate: a symbolic engine may legally re-associate products of exponentials, and for huge values the
        # rounding of the two evaluation orders differs by more than any sensible tolerance on an angle
        arg = {"fn": "tanh", "a": arg}
    return {"fn": fn, "a": arg}


def bounded(e, bound):
    """bound * tanh(e): keeps magnitudes physical whatever the outcome values are"""
    return {"mul": [bound, {"fn": "tanh", "a": e}]}


GATE_SLOTS = {
    # name: (modes, [(kind of slot) ...])  kind: 'amp' bounded magnitude, 'ang' any real, 'pos' nonnegative bounded, 'T' in (0,1]
    "Dgate": (1, ["pos", "ang"]), "Sgate": (1, ["amp", "ang"]), "Rgate": (1, ["ang"]), "Xgate": (1, ["amp"]), "Zgate": (1, ["amp"]),
    "Pgate": (1, ["amp"]), "BSgate": (2, ["ang", "ang"]), "S2gate": (2, ["amp", "ang"]), "CXgate": (2, ["amp"]), "CZgate": (2, ["amp"]),
    "MZgate": (2, ["ang", "ang"]), "Coherent": (1, ["pos", "ang"]), "Squeezed": (1, ["amp", "ang"]), "DisplacedSqueezed": (1, ["pos", "ang", "amp", "ang"]),
    "LossChannel": (1, ["T"]), "Kgate": (1, ["ang"]), "Vgate": (1, ["small"]), "CKgate": (2, ["ang"]), "MeasureHomodyne": (1, ["ang"]),
    "Thermal": (1, ["pos"]),
}


def gen_param(r, kind, frees, meas, depth, backend):
    b = 0.25 if backend == "fock" else 0.6
    if r.random() < 0.25:
        # plain number
        return {"amp": rnd(r, -b, b), "ang": rnd(r, -3, 3), "pos": rnd(r, 0, b), "T": rnd(r, 0.3, 1.0), "small": rnd(r, -0.05, 0.05)}[kind]
    e = gen_expr(r, depth, frees, meas)
    if kind == "ang":
        return e if r.random() < 0.6 else bounded(e, 3.0)
    if kind == "amp":
        return bounded(e, b)
    if kind == "small":
        return bounded(e, 0.05)
    if kind == "pos":
        return {"mul": [b, {"pow": [{"fn": "tanh", "a": e}, 2]}]}
    if kind == "T":
        return {"add": [0.3, {"mul": [0.7, {"pow": [{"fn": "cos", "a": e}, 2]}]}]}
    raise KeyError(kind)


def gen_fockcount(r, seed):
    """photon-counting outcomes as parameters: number states (+ a beamsplitter), one multi-mode MeasureFock in any mode order, then
    feed-forward operations whose parameters are expressions over the counts"""
    n = r.randint(2, 3)
    ops = [{"op": "Fock", "p": [r.randint(0, 2)], "m": [m]} for m in range(n)]
    if r.random() < 0.5:
        ops.append({"op": "BSgate", "p": [rnd(r, 0.2, 1.3), rnd(r, 0, 3)], "m": r.sample(range(n), 2)})
    k = r.randint(1, n - 1)
    ms = r.sample(range(n), k)
    ops.append({"op": "MeasureFock", "m": ms})
    rest = [m for m in range(n) if m not in ms]
    for _ in range(r.randint(1, 4)):
        tg = r.choice(rest)
        e = gen_expr(r, r.choice([1, 2]), [], ms)
        if not meas_deps(e):
            e = {"mul": [{"meas": r.choice(ms)}, rnd(r, 0.05, 0.3)]}
        g = r.choice(["Dgate", "Rgate", "Sgate", "Kgate"])
        p = {"Dgate": [bounded(e, 0.3) if True else e, rnd(r, 0, 3)], "Rgate": [e], "Sgate": [bounded(e, 0.2), rnd(r, 0, 3)], "Kgate": [bounded(e, 1.0)]}[g]
        if g == "Dgate":
            p[0] = {"mul": [0.3, {"pow": [{"fn": "tanh", "a": e}, 2]}]}
        ops.append({"op": g, "p": p, "m": [tg]})
    ra = random.Random("c10a:%d" % seed)
    if ra.random() < 0.4:
        # an array-valued parameter: a ket whose amplitudes are expressions over the counts - 1-D for one mode, 2-D for two modes
        two = len(rest) >= 2 and ra.random() < 0.6
        e = {"mul": [{"meas": ra.choice(ms)}, rnd(ra, 0.2, 0.6)]}
        if ra.random() < 0.4:
            e = {"add": [e, rnd(ra, -0.5, 0.5)]}
        ops.insert(ra.randint(ops.index(next(o for o in ops if o["op"] == "MeasureFock")) + 1, len(ops)),
                   {"op": "KetArr", "p": [e], "D": 5, "m": ra.sample(rest, 2) if two else [ra.choice(rest)]})
    return {"backend": "fock", "n": n, "segs": [{"n": n, "name": "seg0", "ops": ops}], "bind": {}, "tape": {}, "how": {"mode": "run", "optimize": ra.random() < 0.5},
            "cutoff": 5, "foreign": [], "misuse": None, "fockcount": True, "pick": round(r.random(), 6)}


def gen_hetero(r, seed):
    """complex measured parameters: a heterodyne outcome alpha used through re / im / Abs / arg / conjugate in feed-forward operations"""
    backend = r.choice(["gaussian", "gaussian", "bosonic"])
    n = r.randint(2, 3)
    ops = []
    for m in range(n):
        ops.append({"op": r.choice(["Coherent", "Squeezed"]), "p": [rnd(r, 0.2, 0.8), rnd(r, 0, 6)], "m": [m]})
    for _ in range(r.randint(0, 2)):
        ops.append({"op": "BSgate", "p": [rnd(r, 0.2, 1.3), rnd(r, 0, 3)], "m": r.sample(range(n), 2)})
    m0 = r.randrange(n)
    ops.append({"op": "MeasureHD", "m": [m0]})
    a = {"meas": m0}
    rest = [m for m in range(n) if m != m0]
    cj = {"fn": "conjugate", "a": a}
    forms = [
        lambda c: ("Zgate", [{"mul": [c, {"fn": "im", "a": a}]}]),
        lambda c: ("Xgate", [{"mul": [c, {"fn": "re", "a": a}]}]),
        lambda c: ("Zgate", [{"mul": [c, {"fn": "im", "a": cj}]}]),
        lambda c: ("Dgate", [{"mul": [abs(c), {"fn": "Abs", "a": a}]}, {"fn": "arg", "a": a}]),
        lambda c: ("Dgate", [{"mul": [abs(c), {"fn": "Abs", "a": a}]}, {"fn": "arg", "a": cj}]),
        lambda c: ("Rgate", [{"fn": "arg", "a": a}]),
        lambda c: ("Rgate", [{"mul": [c, {"fn": "re", "a": {"mul": [a, a]}}]}]),
        lambda c: ("Rgate", [{"mul": [c, {"fn": "im", "a": {"mul": [a, a]}}]}]),
        lambda c: ("Sgate", [{"mul": [0.4, {"fn": "tanh", "a": {"fn": "Abs", "a": a}}]}, {"fn": "arg", "a": cj}]),
        lambda c: ("Xgate", [{"mul": [c, {"fn": "re", "a": {"mul": [a, ["c", 0.6, 0.8]]}}]}]),
    ]
    for _ in range(r.randint(1, 4)):
        g, p = r.choice(forms)(rnd(r, 0.2, 0.9) * r.choice([1, -1]))
        ops.append({"op": g, "p": p, "m": [r.choice(rest)]})
    return {"backend": backend, "n": n, "segs": [{"n": n, "name": "seg0", "ops": ops}], "bind": {}, "tape": seed, "how": {"mode": "run", "optimize": r.random() < 0.4},
            "cutoff": 5, "foreign": [], "misuse": None, "hetero": True, "m0": m0, "select": (["c", rnd(r, -0.8, 0.8), rnd(r, -0.8, 0.8)] if r.random() < 0.3 else None)}


def gen_loaded(r, seed):
    """a program that reaches the engine as Blackbird text (sf.io): 11-14 modes, so that measured parameters of modes with two-digit indices
    (q10, q11, ...) occur next to those of their one-digit look-alikes (q1)"""
    n = r.randint(11, 14)
    ops = []
    hi = r.sample(range(10, n), r.randint(1, min(2, n - 10)))
    lo = [int(str(m)[0]) for m in hi if r.random() < 0.7] + ([r.randrange(2, 10)] if r.random() < 0.4 else [])
    meas = list(dict.fromkeys(hi + lo))
    r.shuffle(meas)
    targets = [m for m in range(n) if m not in meas]
    ops.append({"op": "Rgate", "p": [rnd(r, 0.1, 1.0)], "m": [n - 1]})  # the text declares no mode count: the highest index used is the last mode
    for m in meas:
        ops.append({"op": "Coherent", "p": [rnd(r, 0.2, 0.9), rnd(r, 0, 6)], "m": [m]})
    done = []
    for m in meas:
        ops.append({"op": "MeasureHomodyne", "p": [rnd(r, 0, 3)], "m": [m]})
        done.append(m)
        for _ in range(r.randint(0, 2)):
            src = r.choice(done)
            g = r.choice(["Xgate", "Zgate", "Rgate"])
            ops.append({"op": g, "p": [{"mul": [{"meas": src}, rnd(r, 0.1, 0.9)]}], "m": [r.choice(targets)]})
    src = r.choice(hi)
    ops.append({"op": "Xgate", "p": [{"mul": [{"meas": src}, rnd(r, 0.1, 0.9)]}], "m": [r.choice(targets)]})
    return {"backend": "gaussian", "n": n, "segs": [{"n": n, "name": "seg0", "ops": ops}], "bind": {}, "tape": seed, "how": {"mode": "run", "optimize": r.random() < 0.4},
            "cutoff": 5, "foreign": [], "misuse": None, "loaded": True}


def gen_reuse(r, seed):
    """objects the user keeps and uses again: a free parameter whose default is changed / removed between runs, and a pair of program
    fragments (measure, use) executed repeatedly on one engine"""
    kind = r.choice(["default_change", "fragment_repetition"])
    n = r.randint(2, 3)
    g = r.choice(["Xgate", "Zgate", "Rgate", "Dgate"])
    return {"backend": r.choice(["gaussian", "gaussian", "bosonic"]) if kind == "default_change" else "gaussian", "n": n, "segs": [], "bind": {}, "tape": seed,
            "how": {"mode": "run", "optimize": False}, "cutoff": 5, "foreign": [], "misuse": None, "reuse": kind, "gate": g, "coef": rnd(r, 0.2, 0.9),
            "values": [rnd(r, -0.8, 0.8) for _ in range(4)], "prep": [[rnd(r, 0.2, 0.9), rnd(r, 0, 6)] for _ in range(n)], "phi": rnd(r, 0, 3),
            "reps": r.randint(2, 3), "fresh_engine": r.random() < 0.5, "pname": "dflt%d" % (seed % 7)}


def blackbird_text(sp):
    def num(x):
        return repr(float(x))

    def ex(e):
        if isinstance(e, (int, float)):
            return num(e)
        if "meas" in e:
            return "q%d" % e["meas"]
        if "mul" in e:
            return "%s*%s" % (ex(e["mul"][0]), ex(e["mul"][1]))
        raise ValueError(e)

    lines = ["name loaded", "version 1.0", ""]
    for o in sp["ops"]:
        lines.append("%s(%s) | %s" % (o["op"], ", ".join(ex(e) for e in o["p"]), ", ".join(str(m) for m in o["m"])))
    return "\n".join(lines) + "\n"


def generate(seed, tier, batch):
    r = random.Random("c10:%d" % seed)
    if batch == "fockcount":
        return gen_fockcount(r, seed)
    if batch == "hetero":
        return gen_hetero(r, seed)
    if batch == "loaded":
        return gen_loaded(r, seed)
    if batch == "reuse":
        return gen_reuse(r, seed)
    big = tier == "thorough"
    backend = batch if batch in ("gaussian", "bosonic", "fock") else r.choice(["gaussian", "gaussian", "bosonic", "fock"] if batch == "misuse" else ["gaussian", "gaussian", "bosonic"])
    n = r.randint(1, 3 if backend == "fock" else 4)
    nseg = r.choice([1, 1, 2, 3]) if backend != "bosonic" else 1
    frees = ["a", "b", "c"][: r.choice([0, 1, 2, 3])]
    depth = r.choice([1, 2, 2, 3])
    names = [g for g in GATE_SLOTS if backend == "fock" or g not in ("Kgate", "Vgate", "CKgate")]
    if backend == "fock":
        names = [g for g in names if g != "Thermal"]
    measured = []
    segs = []
    for s in range(nseg):
        ops = []
        for _ in range(r.randint(2, 8 if not big else 12)):
            x = r.random()
            if x < 0.22 and n >= 1:
                m = r.randrange(n)
                ops.append({"op": "MeasureHomodyne", "p": [gen_param(r, "ang", frees, [q for q in measured if q != m], depth, backend) if r.random() < 0.3 else rnd(r, -3, 3)], "m": [m]})
                if m not in measured:
                    measured.append(m)
            elif x < 0.32 and measured:
                # re-prepare a measured mode (measure -> use -> re-prepare -> re-measure -> use chains)
                m = r.choice(measured)
                ops.append({"op": "Coherent", "p": [rnd(r, 0, 0.3), rnd(r, 0, 6)], "m": [m]})
            else:
                g = r.choice(names)
                if g == "MeasureHomodyne":
                    continue
                nm, slots = GATE_SLOTS[g]
                if nm > n:
                    continue
                modes = r.sample(range(n), nm)
                usable = [q for q in measured if True]
                ps = [gen_param(r, k, frees, usable, depth, backend) for k in slots]
                o = {"op": g, "p": ps, "m": modes}
                if g in ("Dgate", "Sgate", "Rgate", "Xgate", "Zgate", "Pgate", "BSgate", "S2gate", "CXgate", "CZgate", "Kgate", "CKgate") and r.random() < 0.25:
                    o["dag"] = True
                ops.append(o)
        sp = {"ops": ops, "name": "seg%d" % s}
        if s == 0:
            sp["n"] = n
        else:
            sp["parent"] = s - 1
        segs.append(sp)
    rz = random.Random("c10z:%d" % seed)
    zero_free = None
    cands = [(si, oi) for si, sp in enumerate(segs) for oi, o in enumerate(sp["ops"]) if o["op"] in GATE_SLOTS and o["op"] not in ("MeasureHomodyne", "LossChannel") and o.get("p")]
    if cands and rz.random() < 0.15:
        # the first parameter of one operation is a free parameter that will be bound to exactly 0.0
        si, oi = rz.choice(cands)
        segs[si]["ops"][oi]["p"][0] = {"free": "z0"}
        zero_free = "z0"
    used_free = sorted({f for sp in segs for o in sp["ops"] for e in o.get("p", []) for f in free_deps(e)})
    bind = {f: rnd(r, -0.8, 0.8) for f in used_free}
    if zero_free:
        bind[zero_free] = 0.0
    tape = {}
    for m in range(n):
        for k in range(12):
            tape["%d:%d" % (m, k)] = rnd(r, -1.2, 1.2)
    # exact special values: a free parameter bound to 0.0, an outcome of exactly 0.0 (library shortcuts that test a parameter against zero see a
    # number in the substituted circuit and a symbol in the symbolic one)
    for f in sorted(bind):
        if rz.random() < 0.15:
            bind[f] = 0.0
    for key in sorted(tape):
        if rz.random() < 0.04:
            tape[key] = 0.0
    how = r.choice([{"mode": "run", "optimize": False}, {"mode": "run", "optimize": True}, {"mode": "compile", "compiler": backend, "optimize": r.random() < 0.5}])
    if backend == "fock":
        how["optimize"] = False
    has_meas = any(o["op"] == "MeasureHomodyne" for sp in segs for o in sp["ops"])
    if backend == "gaussian" and r.random() < 0.2 and not has_meas and nseg == 1:
        # gaussian_unitary needs numbers at compile time: the documented use is bind first, then compile
        how = {"mode": "compile", "compiler": "gaussian_unitary", "optimize": False, "bind_first": True}
    script = {"backend": backend, "n": n, "segs": segs, "bind": bind, "tape": tape, "how": how, "cutoff": 6, "foreign": [], "misuse": None,
              "pure": r.random() < 0.7}
    if batch == "misuse":
        script["misuse"] = {"kind": r.choice(["use_before_measure", "use_before_measure_rerun", "unbound", "unknown_name", "unbound_one_of_many", "foreign_param_object", "rebind", "rebind"]),
                            "mode": r.randrange(n), "pick": r.random()}
    if batch == "foreign":
        for _ in range(r.randint(1, 3)):
            script["foreign"].append({"at": r.choice(["before_build", "after_build", "after_compile", "between_segments"]),
                                      "kind": r.choice(["build", "build_run", "blackbird", "clone_run", "clone_run"]),
                                      "same_free_names": False, "value": rnd(r, -2, 2), "n": n, "seed": r.randrange(1 << 30)})
    return script


# ------------------------------------------------------------------------------------------------
def mvals_by_position(script):
    """for every op (program order across segments) the latest outcome of every mode at that point, plus the k-counter"""
    latest, count = {}, {}
    out = []
    for sp in script["segs"]:
        seg_out = []
        for o in sp["ops"]:
            seg_out.append(dict(latest))
            if o["op"] == "MeasureHomodyne":
                m = o["m"][0]
                k = count.get(m, 0)
                count[m] = k + 1
                latest[m] = measured_value(script, m, k)
        out.append(seg_out)
    return out


GRID = None


def measured_value(script, m, k):
    v = script["tape"]["%d:%d" % (m, k % 12)]
    if script["backend"] == "fock":
        global GRID
        if GRID is None:
            GRID = np.linspace(-10, 10, 100000)
        return float(GRID[int(np.argmin(np.abs(GRID - v)))])
    return v


def build_chain(script, numeric):
    progs = []
    mv = mvals_by_position(script)
    for i, sp in enumerate(script["segs"]):
        parent = progs[sp["parent"]] if "parent" in sp else None
        num = {"bind": script["bind"], "mvals_at": mv[i]} if numeric else None
        p = build_program(sp, parent=parent, numeric=num, name=sp["name"] + ("_twin" if numeric else ""))
        if not numeric:
            for f in sorted(script["bind"]):
                p.params(f)
        progs.append(p)
    return progs


class Tape:
    """RNG handler + BackendSeam hook: the outcome of the k-th homodyne of mode m is tape[m:k]"""

    def __init__(self, script, w, fallback):
        self.script, self.w, self.fallback = script, w, fallback
        self.count = {}
        self.cur = None

    def reset(self):
        self.count = {}
        self.cur = None

    def on_call(self, phase, be, name, a, k, out):
        if name != "measure_homodyne" or getattr(self, "foreign", False):
            return
        if phase == "pre":
            mode = k.get("mode", a[1] if len(a) > 1 else None)
            mode = int(mode[0]) if isinstance(mode, (list, tuple)) else int(mode)
            kk = self.count.get(mode, 0)
            self.count[mode] = kk + 1
            self.cur = {"mode": mode, "v": measured_value(self.script, mode, kk), "props": 0}
        else:
            self.cur = None

    def __call__(self, name, args, kwargs, native):
        cur = self.cur
        if cur is None:
            return self.fallback(name, args, kwargs, native)
        v = cur["v"]
        be = self.script["backend"]
        if be == "gaussian" and name == "multivariate_normal":
            size = kwargs.get("size", args[2] if len(args) > 2 else None)
            y = np.array([v, float(np.real(args[0][1]))])
            return np.tile(y, (int(size), 1)) if size else y
        if be == "bosonic":
            if name == "choice":
                a = np.asarray(args[0])
                p = np.asarray(kwargs.get("p"), dtype=float)
                size = kwargs.get("size")
                pick = a[int(np.argmax(p))]
                return np.array([pick]) if size else pick
            if name == "multivariate_normal":
                return np.array([v, float(np.real(args[0][1]))])
            if name == "random":
                size = kwargs.get("size", args[0] if args else None)
                return np.zeros(size) if size else 0.0
        if be == "fock" and name == "multinomial":
            probs = np.asarray(args[1], dtype=float)
            g = np.linspace(-10, 10, len(probs))
            i = int(np.argmin(np.abs(g - v)))
            if probs[i] <= 0:
                # the dictated value has zero probability in this state: not a legal outcome; use the fallback (case is dropped)
                raise Violation("scheduler", "tape-value-impossible", "zero-probability outcome")
            out = np.zeros(len(probs), dtype=int)
            out[i] = 1
            return out
        return self.fallback(name, args, kwargs, native)


def execute(script, w):
    import strawberryfields as sf
    from strawberryfields.parameters import ParameterError
    from strawberryfields.program_utils import CircuitError

    backend = script["backend"]
    feats = ["backend=" + backend, "how=" + script["how"]["mode"]]
    fallback = SeededOutcomes(1, w)
    tape = Tape(script, w, fallback)
    simenv = SimEnv(w, fallback, FaultPlan(), on_call=tape.on_call)
    opts = {"cutoff_dim": script["cutoff"], "pure": script.get("pure", True)} if backend == "fock" else {}
    how = script["how"]
    nontrivial = any(is_sym(e) for sp in script["segs"] for o in sp["ops"] for e in o.get("p", []))

    def foreign(at):
        for f in script["foreign"]:
            if f["at"] == at:
                foreign_activity(script, f, w, simenv)

    def run_chain(progs, bind, symbolic):
        tape.reset()
        eng = simenv.engine(backend, opts)
        res = None
        for i, p in enumerate(progs):
            if i > 0 and symbolic:
                foreign("between_segments")
            if how["mode"] == "compile":
                if how.get("bind_first") and symbolic and bind:
                    p.bind_params(bind)
                c = p.compile(compiler=how["compiler"], optimize=how["optimize"])
                if symbolic:
                    foreign("after_compile")
                w.step("run_compiled", seg=i, symbolic=symbolic)
                res = eng.run(c, args=bind if symbolic and bind else None)
            else:
                w.step("run", seg=i, symbolic=symbolic)
                res = eng.run(p, args=bind if symbolic and bind else None, compile_options={"optimize": how["optimize"]})
        return res, eng

    if script.get("fockcount"):
        return exec_fockcount(script, w, feats)
    if script.get("hetero"):
        return exec_hetero(script, w, feats)
    if script.get("loaded"):
        return exec_loaded(script, w, feats)
    if script.get("reuse"):
        return exec_reuse(script, w, feats)
    with simenv:
        simenv.rng.handler = tape
        if script.get("misuse"):
            foreign("before_build")
            return exec_misuse(script, w, simenv, tape, opts, feats, foreign)
        foreign("before_build")
        try:
            sym_progs = build_chain(script, numeric=False)
        except Exception as ex:  # noqa
            w.violation("symbolic-build", "front-end", {"exc": type(ex).__name__, "msg": str(ex)[:300]}, feats)
            return
        foreign("after_build")
        fp0 = [program_fp(p) for p in sym_progs]
        # ---- numeric twin first (it cannot be influenced by symbolic machinery)
        try:
            twin_progs = build_chain(script, numeric=True)
            res_t, _ = run_chain(twin_progs, None, symbolic=False)
        except CircuitError as ex:
            w.probes["twin_rejected_by_compiler"] += 1
            twin_err = ex
            res_t = None
        except Violation:
            w.probes["dropped_impossible_tape_value"] += 1
            return
        except Exception as ex:  # noqa
            # the numeric program itself is not runnable (e.g. parameter out of the op's domain): not a C10 question
            w.probes["twin_not_runnable"] += 1
            w.log("twin_error", exc=type(ex).__name__, msg=str(ex)[:200])
            return
        # ---- symbolic
        try:
            res_s, eng_s = run_chain(sym_progs, script["bind"], symbolic=True)
        except CircuitError as ex:
            if res_t is None:
                w.probes["both_rejected_by_compiler"] += 1
                return
            w.violation("substitution", "symbolic-rejected-twin-accepted", {"exc": type(ex).__name__, "msg": str(ex)[:300]}, feats)
            return
        except Violation:
            w.probes["dropped_impossible_tape_value"] += 1
            return
        except Exception as ex:  # noqa
            w.violation("substitution", "symbolic-run-raises", {"exc": type(ex).__name__, "msg": str(ex)[:400]}, feats)
            return
        if res_t is None:
            w.violation("substitution", "twin-rejected-symbolic-accepted", {"msg": str(twin_err)[:300]}, feats)
            return
        d = obs_diff(state_obs(res_t.state), state_obs(res_s.state), TOL)
        if d:
            w.violation("substitution", "final-state symbolic vs numeric twin", {"diff": d, "how": how}, feats)
            return
        # samples equal the tape
        a, b = np.asarray(res_t.samples, dtype=complex), np.asarray(res_s.samples, dtype=complex)
        if a.shape != b.shape or (a.size and np.max(np.abs(a - b)) > 1e-9):
            w.violation("substitution", "samples symbolic vs numeric twin", {"twin": a.tolist(), "symbolic": b.tolist()}, feats)
            return
        # the user's symbolic program is still the same program (C09's fingerprint) - compile/run must not bake values in
        for i, (f0, p) in enumerate(zip(fp0, sym_progs)):
            dd = fp_diff(f0, program_fp(p))
            if dd:
                w.violation("substitution", "symbolic-program-modified-by-run", {"segment": i, "diff": dd}, feats)
                return
        if nontrivial:
            w.nontrivial.add(hashlib.sha256(json.dumps(script, sort_keys=True).encode()).hexdigest()[:16])
            w.probes["symbolic_expression_evaluated"] += 1
        if len(script["segs"]) > 1 and any(meas_deps(e) for sp in script["segs"][1:] for o in sp["ops"] for e in o.get("p", [])):
            w.probes["cross_segment_measured_parameter"] += 1


def exec_fockcount(script, w, feats):
    """symbolic run first (the simulator picks the photon-count outcome at the RNG seam and records it per mode), then the numeric twin
    built from the recorded counts, run with the same outcome forced"""
    import strawberryfields as sf

    n, D = script["n"], script["cutoff"]
    fallback = SeededOutcomes(1, w)
    ctx = {"modes": None, "forced": None, "drawn": None}

    def on_call(phase, be, name, a, k, out):
        if name == "measure_fock" and phase == "pre":
            modes = k.get("modes", a[0] if a else None)
            ctx["modes"] = [int(m) for m in modes]

    def handler(name, args, kwargs, native):
        if name != "choice" or ctx["modes"] is None:
            return fallback(name, args, kwargs, native)
        p = np.asarray(kwargs.get("p"), dtype=float)
        fs = sorted(ctx["modes"])
        shape = (D,) * len(fs)
        if ctx["forced"] is not None:
            idx = int(np.ravel_multi_index(tuple(ctx["forced"][m] for m in fs), shape))
            if p[idx] <= 1e-12:
                raise Violation("substitution", "twin-state-differs-before-measurement", "the recorded outcome has zero probability in the twin")
            return idx
        nz = [i for i, v in enumerate(p) if v > 1e-6]
        pick = nz[int(script["pick"] * len(nz)) % len(nz)]
        un = np.unravel_index(pick, shape)
        ctx["drawn"] = {m: int(un[fs.index(m)]) for m in fs}
        return pick

    simenv = SimEnv(w, fallback, FaultPlan(), on_call=on_call)
    sp = script["segs"][0]
    with simenv:
        simenv.rng.handler = handler
        try:
            ps = build_program(sp)
            w.step("run", symbolic=True)
            # the symbolic program may go through the optimiser (the twin is always the plain circuit with the numbers substituted)
            rs = simenv.engine("fock", {"cutoff_dim": D}).run(ps, **({"compile_options": {"optimize": True}} if script["how"].get("optimize") else {}))
        except Violation:
            raise
        except Exception as ex:  # noqa
            w.violation("substitution", "symbolic-run-raises", {"exc": type(ex).__name__, "msg": str(ex)[:300]}, feats + ["fock-count"])
            return
        if ctx["drawn"] is None:
            return
        drawn = ctx["drawn"]
        # twin: every expression replaced by the number my evaluator computes from the recorded counts
        mv = []
        latest = {}
        for o in sp["ops"]:
            mv.append(dict(latest))
            if o["op"] == "MeasureFock":
                for m in o["m"]:
                    latest[m] = drawn[m]
        ctx["forced"] = drawn
        ctx["modes"] = None
        try:
            pt = build_program(sp, numeric={"bind": {}, "mvals_at": mv})
            w.step("run", symbolic=False)
            rt = simenv.engine("fock", {"cutoff_dim": D}).run(pt)
        except Violation:
            raise
        except Exception as ex:  # noqa
            w.probes["twin_not_runnable"] += 1
            return
        # through the optimiser, operations on other modes may legally move across the measurement; on a truncated Fock space the measurement
        # renormalises what the (non-unitary, truncated) gates before it have lost, so the two orders differ by the truncation loss (seen: 1.8e-5
        # for Sgate(0.2) on vacuum at cutoff 5, 7e-3 on |2>)
        ot_, os_ = state_obs(rt.state), state_obs(rs.state)
        if script["how"].get("optimize"):
            # ... so the two states are proportional; compare them normalised
            ot_["dm"] = ot_["dm"] / float(np.real(rt.state.trace()))
            os_["dm"] = os_["dm"] / float(np.real(rs.state.trace()))
        d = obs_diff(ot_, os_, 1e-7 if not script["how"].get("optimize") else 1e-6)
        if d:
            w.violation("substitution", "final-state symbolic vs numeric twin", {"diff": d, "counts": drawn, "measured_order": [o["m"] for o in sp["ops"] if o["op"] == "MeasureFock"][0]},
                        feats + ["fock-count"])
            return
        w.nontrivial.add(hashlib.sha256(json.dumps(script, sort_keys=True).encode()).hexdigest()[:16])
        w.probes["photon_count_as_parameter"] += 1
        if len(set(drawn.values())) > 1:
            w.probes["photon_counts_differ_between_modes"] += 1


def exec_hetero(script, w, feats):
    """symbolic run (the heterodyne outcome is drawn by the simulator from the declared distribution, or post-selected), then the numeric twin
    built from the recorded complex outcome under the same draw"""
    backend = script["backend"]
    outcomes = SeededOutcomes(script["tape"], w)
    simenv = SimEnv(w, outcomes, FaultPlan())
    sp = copy.deepcopy(script["segs"][0])
    m0 = script["m0"]
    if script.get("select"):
        for o in sp["ops"]:
            if o["op"] == "MeasureHD":
                o["op"], o["kw"] = "MeasureHeterodyne", {"select": script["select"]}
    feats = feats + ["heterodyne"]
    with simenv:
        try:
            ps = build_program(sp)
            w.step("run", symbolic=True)
            outcomes.rewind()
            rs = simenv.engine(backend).run(ps, **({"compile_options": {"optimize": True}} if script["how"].get("optimize") else {}))
        except Violation:
            raise
        except Exception as ex:  # noqa
            w.violation("substitution", "symbolic-run-raises", {"exc": type(ex).__name__, "msg": str(ex)[:300]}, feats)
            return
        alpha = complex(np.asarray(rs.samples_dict[m0]).ravel()[0])
        mv = []
        latest = {}
        for o in sp["ops"]:
            mv.append(dict(latest))
            if o["op"] in ("MeasureHD", "MeasureHeterodyne"):
                latest[m0] = alpha
        try:
            pt = build_program(sp, numeric={"bind": {}, "mvals_at": mv})
            w.step("run", symbolic=False)
            outcomes.rewind()
            rt = simenv.engine(backend).run(pt)
        except Violation:
            raise
        except Exception as ex:  # noqa
            w.probes["twin_not_runnable"] += 1
            w.log("twin_error", exc=type(ex).__name__, msg=str(ex)[:200])
            return
        alpha_t = complex(np.asarray(rt.samples_dict[m0]).ravel()[0])
        if abs(alpha_t - alpha) > 1e-9:
            w.violation("substitution", "twin-outcome-differs", {"symbolic": [alpha.real, alpha.imag], "twin": [alpha_t.real, alpha_t.imag]}, feats)
            return
        d = obs_diff(state_obs(rt.state), state_obs(rs.state), 1e-7)
        if d:
            w.violation("substitution", "final-state symbolic vs numeric twin", {"diff": d, "outcome": [alpha.real, alpha.imag]}, feats)
            return
        w.nontrivial.add(hashlib.sha256(json.dumps(script, sort_keys=True).encode()).hexdigest()[:16])
        w.probes["complex_outcome_as_parameter"] += 1


def exec_reuse(script, w, feats):
    import strawberryfields as sf
    from strawberryfields import ops as sfops
    from strawberryfields.parameters import ParameterError

    backend, n, g, c = script["backend"], script["n"], script["gate"], script["coef"]
    outcomes = SeededOutcomes(script["tape"], w)
    cnt = {"k": 0}
    feats = feats + ["reuse=" + script["reuse"]]

    def on_call(phase, be, name, a, k, out):
        pass

    def handler(name, args, kwargs, native):
        if name != "multivariate_normal":
            return outcomes(name, args, kwargs, native)
        v = script["values"][cnt["k"] % len(script["values"])]  # the k-th homodyne outcome of the session
        cnt["k"] += 1
        size = kwargs.get("size", args[2] if len(args) > 2 else None)
        y = np.array([v, 0.0])
        return np.tile(y, (int(size), 1)) if size else y

    def gate(x):
        return getattr(sfops, g)(x, 0.4) if g == "Dgate" else getattr(sfops, g)(x)

    def numeric_state(xs):
        """the circuit with the numbers substituted: preparation, then per use the measurement of mode 0 (if any) and the gate with value x"""
        p_ = sf.Program(n)
        with p_.context as q:
            for m_, (a_, ph_) in enumerate(script["prep"]):
                sfops.Coherent(a_, ph_) | q[m_]
            for x in xs:
                if script["reuse"] == "fragment_repetition":
                    sfops.MeasureHomodyne(script["phi"]) | q[0]
                gate(x) | q[1]
        cnt["k"] = 0
        return state_obs(simenv.engine(backend).run(p_).state)

    simenv = SimEnv(w, outcomes, FaultPlan(), on_call=on_call)
    with simenv:
        simenv.rng.handler = handler
        if script["reuse"] == "default_change":
            prog = sf.Program(n)
            par = prog.params(script["pname"])
            with prog.context as q:
                for m_, (a_, ph_) in enumerate(script["prep"]):
                    sfops.Coherent(a_, ph_) | q[m_]
                gate(c * par) | q[1]
            eng = simenv.engine(backend)
            for step, dv in enumerate(script["values"][: script["reps"]]):
                # the default is a property of the parameter the user may change between runs; no run binds anything
                par.default = dv
                w.step("run_with_default", default=dv)
                try:
                    if script["fresh_engine"]:
                        eng = simenv.engine(backend)
                    elif step:
                        eng.reset()
                    got = state_obs(eng.run(prog).state)
                except Exception as ex:  # noqa
                    w.violation("substitution", "symbolic-run-raises", {"exc": type(ex).__name__, "msg": str(ex)[:300], "step": step}, feats)
                    return
                d = obs_diff(numeric_state([c * dv]), got, 1e-7)
                if d:
                    w.violation("substitution", "run-with-current-default vs numeric twin", {"diff": d, "step": step, "default_now": dv, "defaults_before": script["values"][:step]}, feats)
                    return
            par.default = None
            w.step("run_without_default")
            try:
                (simenv.engine(backend) if script["fresh_engine"] else eng).run(prog) if script["fresh_engine"] else (eng.reset(), eng.run(prog))
            except ParameterError:
                w.probes["unbound_parameter_without_default_rejected"] += 1
                w.nontrivial.add(hashlib.sha256(json.dumps(script, sort_keys=True).encode()).hexdigest()[:16])
                return
            except Exception as ex:  # noqa
                w.violation("misuse", "unbound-without-default:wrong-exception", {"exc": type(ex).__name__, "msg": str(ex)[:200]}, feats)
                return
            w.violation("misuse", "unbound-without-default:accepted", {"defaults_used_before": script["values"][: script["reps"]]}, feats)
            return
        # fragment repetition: (measure, use) (measure, use) ... on one engine; the library allows a program to follow any program with the same register
        p1 = sf.Program(n)
        with p1.context as q:
            sfops.MeasureHomodyne(script["phi"]) | q[0]
        p0 = sf.Program(n)
        with p0.context as q:
            for m_, (a_, ph_) in enumerate(script["prep"]):
                sfops.Coherent(a_, ph_) | q[m_]
        p1 = sf.Program(p0)
        with p1.context as q:
            sfops.MeasureHomodyne(script["phi"]) | q[0]
        p2 = sf.Program(p1)
        with p2.context as q:
            gate(c * q[0].par) | q[1]
        eng = simenv.engine(backend)
        cnt["k"] = 0
        try:
            eng.run(p0)
            for _ in range(script["reps"]):
                w.step("run_fragments")
                eng.run(p1)
                res = eng.run(p2)
        except Exception as ex:  # noqa
            w.violation("substitution", "symbolic-run-raises", {"exc": type(ex).__name__, "msg": str(ex)[:300]}, feats)
            return
        got = state_obs(res.state)
        hb = math.sqrt(sf.hbar / 2)
        d = obs_diff(numeric_state([c * script["values"][i_ % len(script["values"])] * hb for i_ in range(script["reps"])]), got, 1e-7)
        if d:
            w.violation("latest-outcome", "repeated-fragment uses the most recent outcome", {"diff": d, "outcomes": script["values"][: script["reps"]]}, feats)
            return
        w.probes["program_fragments_repeated"] += 1
        w.nontrivial.add(hashlib.sha256(json.dumps(script, sort_keys=True).encode()).hexdigest()[:16])


def exec_loaded(script, w, feats):
    """the symbolic program is loaded from Blackbird text; the twin is written through the Python API with the recorded outcomes substituted"""
    from strawberryfields import io as sfio

    outcomes = SeededOutcomes(script["tape"], w)
    cur = {"mode": None}
    rv = random.Random("c10l:%d" % script["tape"])
    val_of = {m_: round(rv.uniform(-1.5, 1.5), 6) for m_ in range(script["n"])}  # the outcome of a mode does not depend on when it is measured

    def on_call(phase, be, name, a, k, out):
        if name == "measure_homodyne":
            if phase == "pre":
                mode = k.get("mode", a[1] if len(a) > 1 else None)
                cur["mode"] = int(mode[0]) if isinstance(mode, (list, tuple)) else int(mode)
            else:
                cur["mode"] = None

    def handler(name, args, kwargs, native):
        if name != "multivariate_normal" or cur["mode"] is None:
            return outcomes(name, args, kwargs, native)
        size = kwargs.get("size", args[2] if len(args) > 2 else None)
        y = np.array([val_of[cur["mode"]], 0.0])
        return np.tile(y, (int(size), 1)) if size else y

    simenv = SimEnv(w, outcomes, FaultPlan(), on_call=on_call)
    sp = script["segs"][0]
    feats = feats + ["loaded-from-blackbird"]
    with simenv:
        simenv.rng.handler = handler
        try:
            ps = sfio.to_program(__import__("blackbird").loads(blackbird_text(sp)))
            w.step("run", symbolic=True)
            outcomes.rewind()
            rs = simenv.engine("gaussian").run(ps, **({"compile_options": {"optimize": True}} if script["how"].get("optimize") else {}))
        except Violation:
            raise
        except Exception as ex:  # noqa
            w.violation("substitution", "symbolic-run-raises", {"exc": type(ex).__name__, "msg": str(ex)[:300]}, feats)
            return
        vals = {int(m_): float(np.asarray(v_).ravel()[-1]) for m_, v_ in rs.samples_dict.items()}
        mv, latest = [], {}
        for o in sp["ops"]:
            mv.append(dict(latest))
            if o["op"] == "MeasureHomodyne":
                latest[o["m"][0]] = vals[o["m"][0]]
        try:
            pt = build_program(sp, numeric={"bind": {}, "mvals_at": mv})
            w.step("run", symbolic=False)
            outcomes.rewind()
            rt = simenv.engine("gaussian").run(pt)
        except Violation:
            raise
        except Exception as ex:  # noqa
            w.probes["twin_not_runnable"] += 1
            w.log("twin_error", exc=type(ex).__name__, msg=str(ex)[:200])
            return
        vt = {int(m_): float(np.asarray(v_).ravel()[-1]) for m_, v_ in rt.samples_dict.items()}
        if any(abs(vt[m_] - vals[m_]) > 1e-9 for m_ in vals):
            w.violation("substitution", "twin-outcome-differs", {"symbolic": vals, "twin": vt}, feats)
            return
        d = obs_diff(state_obs(rt.state), state_obs(rs.state), 1e-7)
        if d:
            w.violation("substitution", "final-state symbolic vs numeric twin", {"diff": d, "outcomes": {str(k_): v_ for k_, v_ in vals.items()}}, feats)
            return
        w.nontrivial.add(hashlib.sha256(json.dumps(script, sort_keys=True).encode()).hexdigest()[:16])
        w.probes["measured_parameter_of_two_digit_mode_in_loaded_program"] += 1


def foreign_activity(script, f, w, simenv):
    """another session in the same process that uses the same mode indices (and, per flag, the same free-parameter names)"""
    import strawberryfields as sf
    from strawberryfields import ops

    w.fault("foreign_activity:" + f["kind"])
    r = random.Random(f["seed"])
    n = f["n"]
    if f["kind"] == "clone_run":
        # another session runs a program with *identical text* (its own objects, its own outcomes and bindings) earlier in the process:
        # whatever the library remembers per expression text must not leak into the observed program
        if script["backend"] == "fock":
            return
        saved = simenv.rng.handler
        tape_obj = saved if isinstance(saved, Tape) else None
        clone = dict(script, tape={k_: round(-0.7 * v_ + 0.11, 3) for k_, v_ in script["tape"].items()}, bind={k_: round(-v_ + 0.2, 3) for k_, v_ in script["bind"].items()})
        ctape = Tape(clone, w, SeededOutcomes(2, w))

        def hook(phase, be, name, a, k, out):
            ctape.on_call(phase, be, name, a, k, out)

        if tape_obj is not None:
            tape_obj.foreign = True
        old_cb = simenv.on_call
        simenv.on_call = hook
        simenv.rng.handler = ctape
        try:
            progs = build_chain(clone, numeric=False)
            eng = simenv.engine(script["backend"], {})
            for p_ in progs:
                eng.run(p_, args=clone["bind"] or None)
        except Exception as ex:  # noqa
            w.log("foreign_error", exc=type(ex).__name__, msg=str(ex)[:200])
        finally:
            simenv.rng.handler = saved
            simenv.on_call = old_cb
            if tape_obj is not None:
                tape_obj.foreign = False
        return
    names = (sorted(script["bind"]) or ["a", "b"]) if f.get("same_free_names") else ["zz%d" % i for i in range(2)]
    if f["kind"] == "blackbird":
        txt = "name foreign\nversion 1.0\n\nMeasureX | 0\nDgate(q0*0.3, 0.0) | %d\nRgate({zz0}) | 0\n" % (1 if n > 1 else 0)
        if n > 1:
            from strawberryfields import io as sfio
            try:
                bb = __import__("blackbird").loads(txt)
                p = sfio.to_program(bb)
            except Exception as ex:  # noqa
                w.log("foreign_error", exc=type(ex).__name__, msg=str(ex)[:200])
        return
    p = sf.Program(n)
    with p.context as q:
        for m in range(n):
            ops.MeasureX | q[m]
        for m in range(n):
            t = (m + 1) % n
            if t != m:
                ops.Dgate(q[m].par * 0.1 + 0.05) | q[t]
        for nm in names:
            ops.Rgate(p.params(nm) * 2) | q[0]
    if f["kind"] == "build_run":
        # its own outcome stream and its own bindings; runs on its own engine
        saved = simenv.rng.handler

        def h(name, args, kwargs, native):
            if name == "multivariate_normal":
                size = kwargs.get("size", args[2] if len(args) > 2 else None)
                y = np.array([f["value"], 0.0])
                return np.tile(y, (int(size), 1)) if size else y
            return saved(name, args, kwargs, native)

        simenv.rng.handler = h
        tape_obj = saved if isinstance(saved, Tape) else None
        if tape_obj is not None:
            tape_obj.foreign = True  # the foreign session's measurements are not events of the observed session's tape
        try:
            sf.Engine("gaussian").run(p, args={nm: f["value"] for nm in names})
        finally:
            simenv.rng.handler = saved
            if tape_obj is not None:
                tape_obj.foreign = False


def exec_misuse(script, w, simenv, tape, opts, feats, foreign=lambda at: None):
    import strawberryfields as sf
    from strawberryfields import ops
    from strawberryfields.parameters import ParameterError

    mis = script["misuse"]
    backend = script["backend"]
    kind = mis["kind"]
    feats = feats + ["misuse=" + kind]
    n = script["n"]
    w.fault("param_misuse:" + kind)

    def expect_parameter_error(fn, what):
        try:
            fn()
        except ParameterError:
            w.probes["misuse_rejected"] += 1
            return True
        except Exception as ex:  # noqa
            w.violation("misuse", what + ":wrong-exception", {"exc": type(ex).__name__, "msg": str(ex)[:300]}, feats)
            return False
        w.violation("misuse", what + ":accepted", None, feats)
        return False

    if kind in ("use_before_measure", "use_before_measure_rerun"):
        m = mis["mode"]
        t = (m + 1) % n

        def build():
            p = sf.Program(n)
            with p.context as q:
                ops.Sgate(0.2) | q[m]
                if n > 1:
                    ops.Dgate(q[m].par * 0.3, 0.1) | q[t]
                else:
                    ops.Rgate(q[m].par) | q[m]
                ops.MeasureX | q[m]
            return p

        p = build()
        if kind == "use_before_measure":
            tape.reset()
            expect_parameter_error(lambda: simenv.engine(backend, opts).run(p), "use-before-measurement")
        else:
            # a history in which the same program object has been run to completion elsewhere: a legal variant first
            # (measurement before use) leaves a value in the shared RegRef; the misuse must still be detected on a fresh engine
            q_ok = sf.Program(n)
            with q_ok.context as q:
                ops.MeasureX | q[m]
            tape.reset()
            eng = simenv.engine(backend, opts)
            eng.run(q_ok)
            bad = sf.Program(q_ok)
            with bad.context as q:
                pass
            # the misuse program itself, run twice on fresh engines: the first run ends with a measurement of mode m
            tape.reset()
            if not expect_parameter_error(lambda: simenv.engine(backend, opts).run(p), "use-before-measurement"):
                return
            tape.reset()
            expect_parameter_error(lambda: simenv.engine(backend, opts).run(p), "use-before-measurement-second-run")
        return
    if kind in ("unbound", "unbound_one_of_many"):
        # daggered primitive gates in front: the failed run must leave the program exactly as it was, so that the same object, run
        # again with the parameter bound, still behaves like its numeric twin (history: failed run -> successful run)
        rr = random.Random(int(mis["pick"] * 1e9))
        gates = [("Dgate", [0.3, 0.4]), ("Sgate", [0.2, 0.3]), ("Rgate", [0.6])]
        pre = [(g_, list(ps_), rr.random() < 0.7, rr.randrange(n)) for g_, ps_ in rr.sample(gates, rr.randint(1, 3))]
        sym_dag = rr.random() < 0.6
        aval, bval = 0.37, 0.3

        def build(numeric):
            p_ = sf.Program(n)
            with p_.context as q:
                a = aval if numeric else p_.params("a")
                for g_, ps_, dg, m_ in pre:
                    op = getattr(ops, g_)(*ps_)
                    (op.H if dg else op) | q[m_]
                op = ops.Rgate(a * 2 + 0.1)
                (op.H if sym_dag else op) | q[0]
                op = ops.Dgate(a * 0.5, 0.2) if not numeric else ops.Dgate(aval * 0.5, 0.2)
                (op.H if sym_dag else op) | q[n - 1]
                if kind == "unbound_one_of_many":
                    b = bval if numeric else p_.params("b")
                    ops.Dgate((sf.math.tanh(b) if not numeric else math.tanh(b)) ** 2 * 0.3) | q[n - 1]
            return p_

        p = build(False)
        args = {"b": bval} if kind == "unbound_one_of_many" else None
        foreign("after_build")
        eng_u = simenv.engine(backend, opts)
        if not expect_parameter_error(lambda: eng_u.run(p, args=args), "unbound-free-parameter"):
            return
        full = {"a": aval, "b": bval} if kind == "unbound_one_of_many" else {"a": aval}
        # the rejected run was the first of this engine, so the engine has no history: the retry - on the SAME engine, without reset, or
        # on a new one, per script - starts from scratch and must equal the numeric twin
        same_engine = rr.random() < 0.6
        try:
            rs = (eng_u if same_engine else simenv.engine(backend, opts)).run(p, args=full)
            rt = simenv.engine(backend, opts).run(build(True))
        except Exception as ex:  # noqa
            w.violation("misuse", "run-after-rejected-run-raises", {"exc": type(ex).__name__, "msg": str(ex)[:300]}, feats)
            return
        d = obs_diff(state_obs(rt.state), state_obs(rs.state), 1e-7 if backend != "fock" else 1e-6)
        if d:
            w.violation("substitution", "bound-run-after-rejected-unbound-run vs numeric twin", {"diff": d, "daggered_symbolic_gate": sym_dag, "same_engine_no_reset": same_engine}, feats)
        else:
            w.probes["rerun_after_parameter_error_matches_twin"] += 1
        return
    if kind == "rebind":
        # successive runs on ONE engine (no reset) with different bindings: every run uses the values given to it, and an unknown name
        # is rejected on a later run exactly as on the first
        rr = random.Random(int(mis["pick"] * 1e9))
        vals = [round(rr.uniform(-0.8, 0.8), 3) for _ in range(rr.randint(2, 3))]

        def build(a):
            p_ = sf.Program(n)
            with p_.context as q:
                a_ = p_.params("a") if a is None else a
                ops.Rgate(a_ * 2 + 0.1) | q[0]
                ops.Dgate((sf.math.tanh(a_) if a is None else math.tanh(a_)) ** 2 * 0.4, 0.3) | q[n - 1]
            return p_

        p = build(None)
        eng_s = simenv.engine(backend, opts)
        eng_t = simenv.engine(backend, opts)
        rs = rt = None
        try:
            for v in vals:
                w.step("run_rebind", a=v)
                rs = eng_s.run(p, args={"a": v})
                rt = eng_t.run(build(v))
        except Exception as ex:  # noqa
            w.violation("substitution", "rebinding-run-raises", {"exc": type(ex).__name__, "msg": str(ex)[:300], "values": vals}, feats)
            return
        d = obs_diff(state_obs(rt.state), state_obs(rs.state), 1e-7 if backend != "fock" else 1e-6)
        if d:
            w.violation("substitution", "successive-runs-with-different-bindings vs numeric twin", {"diff": d, "values": vals}, feats)
            return
        expect_parameter_error(lambda: eng_s.run(p, args={"a": 0.1, "nope": 0.2}), "unknown-parameter-name-on-later-run")
        w.probes["rebinding_checked"] += 1
        return
    if kind == "foreign_param_object":
        # binding by parameter *object*: an object that belongs to another program is an unknown parameter of this one
        p = sf.Program(n)
        with p.context as q:
            a = p.params("a")
            ops.Rgate(a) | q[0]
        other = sf.Program(n)
        with other.context as q:
            beta = other.params("beta")
            ops.Rgate(beta) | q[0]
        foreign("after_build")
        expect_parameter_error(lambda: simenv.engine(backend, opts).run(p, args={a: 0.1, beta: 0.2}), "foreign-parameter-object")
        # and binding its own object is fine and behaves like the number
        try:
            rs = simenv.engine(backend, opts).run(p, args={a: 0.3})
            pt = sf.Program(n)
            with pt.context as q:
                ops.Rgate(0.3) | q[0]
            rt = simenv.engine(backend, opts).run(pt)
        except Exception as ex:  # noqa
            w.violation("misuse", "bind-own-parameter-object-raises", {"exc": type(ex).__name__, "msg": str(ex)[:300]}, feats)
            return
        d = obs_diff(state_obs(rt.state), state_obs(rs.state), 1e-7)
        if d:
            w.violation("substitution", "binding-by-object vs numeric twin", {"diff": d}, feats)
        return
    if kind == "unknown_name":
        p = sf.Program(n)
        with p.context as q:
            a = p.params("a")
            ops.Rgate(a) | q[0]
        foreign("after_build")
        if not expect_parameter_error(lambda: simenv.engine(backend, opts).run(p, args={"a": 0.1, "nope": 0.2}), "unknown-parameter-name"):
            return
        if backend != "bosonic":
            # the same with a list of programs: a name unknown to every segment is rejected, not dropped
            p1 = sf.Program(n)
            with p1.context as q:
                ops.Rgate(p1.params("a")) | q[0]
            p1.params("nope2") if False else None
            p2 = sf.Program(p1)
            with p2.context as q:
                ops.Dgate(p2.params("a") * 0.2 + 0.1) | q[0]
            p1.bind_params({"a": 0.3})
            p2.bind_params({"a": 0.3})
            expect_parameter_error(lambda: simenv.engine(backend, opts).run([p1, p2], args={"dips": 0.9}), "unknown-parameter-name-with-program-list")
        return


# ------------------------------------------------------------------------------------------------
def features(script, v):
    f = ["backend=" + script["backend"], "how=" + script["how"]["mode"]]
    if script["how"].get("optimize"):
        f.append("optimize")
    if len(script["segs"]) > 1:
        f.append("multi-segment")
    if script.get("foreign"):
        f.append("foreign")
        if any(x.get("same_free_names") for x in script["foreign"]):
            f.append("foreign-same-free-names")
    if script.get("misuse"):
        f.append("misuse=" + script["misuse"]["kind"])
    allp = [e for sp in script["segs"] for o in sp["ops"] for e in o.get("p", [])]
    if any(meas_deps(e) for e in allp):
        f.append("measured-parameter")
    if any(free_deps(e) for e in allp):
        f.append("free-parameter")
    return f


def _legal(script):
    n = script["n"]
    return all(all(0 <= m < n for m in o["m"]) for sp in script["segs"] for o in sp["ops"])


def shrink(script):
    segs = script["segs"]
    if len(segs) > 1:
        yield dict(script, segs=segs[:-1])
    for i, sp in enumerate(segs):
        for cand in ddmin_list(sp["ops"], 0):
            yield dict(script, segs=segs[:i] + [dict(sp, ops=cand)] + segs[i + 1:])
    if script["foreign"]:
        for cand in ddmin_list(script["foreign"], 0):
            yield dict(script, foreign=cand)
    if script["how"].get("optimize"):
        yield dict(script, how=dict(script["how"], optimize=False))
    if script["how"]["mode"] == "compile":
        yield dict(script, how={"mode": "run", "optimize": script["how"].get("optimize", False)})
    # simplify expressions: replace a parameter by one of its sub-expressions or by a number
    for i, sp in enumerate(segs):
        for j, o in enumerate(sp["ops"]):
            if o.get("dag"):
                o2 = {k: v for k, v in o.items() if k != "dag"}
                yield dict(script, segs=segs[:i] + [dict(sp, ops=sp["ops"][:j] + [o2] + sp["ops"][j + 1:])] + segs[i + 1:])
            for pi, e in enumerate(o.get("p", [])):
                if isinstance(e, dict):
                    subs = []
                    for key in ("neg", "a"):
                        if key in e and isinstance(e.get(key), (dict, int, float)):
                            subs.append(e[key])
                    for key in ("add", "mul"):
                        if key in e:
                            subs += list(e[key])
                    if "pow" in e:
                        subs.append(e["pow"][0])
                    subs.append(0.3)
                    for sub in subs:
                        o2 = dict(o, p=o["p"][:pi] + [sub] + o["p"][pi + 1:])
                        yield dict(script, segs=segs[:i] + [dict(sp, ops=sp["ops"][:j] + [o2] + sp["ops"][j + 1:])] + segs[i + 1:])
