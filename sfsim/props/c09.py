"""C09 - running programs is compositional and leaves user programs untouched.

Sessions (engine + the programs it runs) on BackendSeam-wrapped backends with a seeded outcome tape.
Oracles: the three call patterns agree; reset == fresh; structural fingerprint of every user-held program is
unchanged by compile / optimize / run; and - in the separate fault batches - the same after an exception
injected before/after any backend call, followed by the documented recovery.
"""
import copy
import hashlib
import io
import json
import random

import numpy as np

from .. import env  # noqa
from ..gen import gen_ops, rnd
from ..runner import ddmin_list
from ..seams import FaultPlan, InjectedFault
from ..session import SimEnv, SeededOutcomes, state_obs, obs_diff, obs_digest, samples_obs, samples_diff
from ..spec import build_program, program_fp, fp_diff, free_deps, meas_deps
from ..world import Violation

ID = "C09"
LEVEL = "fault_enumeration"
BUDGET = {"quick": 300, "thorough": 1500}
JOB_TIMEOUT = 240
MINIMISE_S = {"quick": 60, "thorough": 240}
RULE = ("a case = one session history: a chain of 1-3 program segments (generated op lists incl. daggered/composite gates, "
        "measurements, free and measured parameters) on one backend, executed as run([p,q]), run(p);run(q), run(p+q), re-run of "
        "the same objects on a fresh engine, alternately on two engines, after reset() with a junk pre-history, with compile/"
        "optimize calls in between; fault batches additionally inject an exception before/after backend call k (k sampled, or "
        "every k of the history = crash sweep) and then recover by reset(), reset(new options), a new engine, or a re-run on the same engine when the crash was inside the first segment. Non-trivial: >= 2 run calls were "
        "compared and (fault batches) a crash actually fired; distinct = distinct (history digest, crash point)")
REAL = ["strawberryfields.engine.LocalEngine/BosonicEngine/BaseEngine", "strawberryfields.program.Program (compile, optimize, _linked_copy, bind_params, lock)",
        "strawberryfields.ops (Gate.apply, decompose, Measurement.apply)", "strawberryfields.compilers (gaussian, fock, bosonic)",
        "Gaussian, Fock and bosonic simulators (unmodified, subclassed at the API boundary)"]
STUB = ["numpy.random.* outcomes: drawn by the simulator from the distribution the library declares (Cholesky / inverse-CDF on a private seeded stream)",
        "thewalrus hafnian/torontonian samplers (Gaussian backend photon counting): outcomes from the private stream"]
ASSUMPTIONS = [
    "documented mutable parts of a user's program are excluded from the fingerprint: RegRef.val, Program.locked, bound values of free parameters",
    "an injected exception at a backend API boundary models a failing/interrupted backend call (KeyboardInterrupt, MemoryError, RuntimeError); "
    "crashes inside a backend call are not simulated",
    "states are compared with tolerance 1e-8 (relative to the largest entry); the three call patterns receive the same outcome tape",
]

TOL = 1e-8


def warm(tier):
    sf = env.import_sf()
    from .. import warmup
    warmup.warm_fock()
    warmup.warm_engines(sf)
    warmup.clear_symbolic_caches()


def batches(tier):
    if tier == "quick":
        return [
            {"name": "nofault-gauss", "runs": 2800, "weight": 3},
            {"name": "nofault-bosonic", "runs": 1000, "weight": 2, "seed_offset": 100000},
            {"name": "nofault-fock", "runs": 400, "weight": 4, "seed_offset": 200000},
            {"name": "crash-gauss", "runs": 1400, "weight": 3, "seed_offset": 300000},
            {"name": "crash-bosonic", "runs": 400, "weight": 1, "seed_offset": 400000},
            {"name": "crash-fock", "runs": 192, "weight": 3, "seed_offset": 500000},
            {"name": "sweep-gauss", "runs": 128, "weight": 2, "seed_offset": 600000},
        ]
    return [
        {"name": "nofault-gauss", "runs": 30000, "weight": 3},
        {"name": "nofault-bosonic", "runs": 10000, "weight": 2, "seed_offset": 100000},
        {"name": "nofault-fock", "runs": 3000, "weight": 4, "seed_offset": 200000},
        {"name": "crash-gauss", "runs": 12000, "weight": 3, "seed_offset": 300000},
        {"name": "crash-bosonic", "runs": 4000, "weight": 1, "seed_offset": 400000},
        {"name": "crash-fock", "runs": 1500, "weight": 3, "seed_offset": 500000},
        {"name": "sweep-gauss", "runs": 1500, "weight": 3, "seed_offset": 600000},
        {"name": "sweep-fock", "runs": 200, "weight": 3, "seed_offset": 700000},
        {"name": "sweep-bosonic", "runs": 400, "weight": 1, "seed_offset": 800000},
    ]


# ------------------------------------------------------------------------------------------------
def generate(seed, tier, batch):
    r = random.Random("c09:%d" % seed)
    kind, backend = batch.split("-")
    backend = {"gauss": "gaussian"}.get(backend, backend)
    big = tier == "thorough"
    n = r.randint(1, 3 if backend == "fock" else 4)
    opts = {}
    if backend == "fock":
        opts = {"cutoff_dim": r.choice([4, 5]), "pure": r.random() < 0.7}
    nseg = r.choice([1, 2, 2, 3]) if backend != "bosonic" else 1
    free = ["a", "b"][: r.choice([0, 0, 1, 2])]
    measured = []
    pool = []
    for s in range(nseg):
        L = r.randint(1, 7 if not big else 12)
        ops = gen_ops(r, backend, n, L, measured=measured, free=free, feedforward=True,
                      allow_fock_meas=(backend == "fock"))
        rs_ = random.Random("c09g:%d:%d" % (seed, s))
        cand_ = [j_ for j_, o_ in enumerate(ops) if o_["op"] in ("Sgate", "Rgate", "Dgate", "BSgate", "Kgate", "Xgate", "Zgate", "Pgate", "S2gate", "CXgate", "CZgate", "Vgate")
                 and o_.get("p") and not any(isinstance(e_, dict) and "meas" in json.dumps(e_) for e_ in o_["p"])]
        if cand_ and rs_.random() < 0.3:
            # one gate object the user keeps and applies twice: as g and as g.H (which share the parameter list), in either order
            j_ = rs_.choice(cand_)
            ops[j_]["obj"] = "g%d" % s
            twin_ = dict(ops[j_], dag=not ops[j_].get("dag", False), m=rs_.sample(range(n), len(ops[j_]["m"])))
            ops.insert(j_ + (1 if rs_.random() < 0.5 else 0), twin_)
        spec = {"ops": ops, "name": "p%d" % s}
        if s == 0:
            spec["n"] = n
        else:
            spec["parent"] = s - 1
        pool.append(spec)
    if backend != "bosonic" and n >= 2 and r.random() < 0.25:
        # the chain ends by deleting a mode (possibly one that was measured and whose value was used): reset must forget its value too
        victim = r.choice(measured) if measured and r.random() < 0.7 else r.randrange(n)
        pool[-1]["ops"].append({"op": "Del", "m": [victim]})
    used_free = sorted({f for sp in pool for o in sp["ops"] for e in o.get("p", []) for f in free_deps(e)})
    bind = {f: rnd(r, -0.5, 0.5) for f in used_free}
    # junk program for the pre-reset history (different mode count, own measurement)
    jn = r.randint(1, 3)
    junk = {"n": jn, "ops": gen_ops(r, backend, jn, r.randint(1, 4), free=(), feedforward=False, allow_fock_meas=(backend == "fock")), "name": "junk"}
    script = {
        "backend": backend, "opts": opts, "pool": pool, "bind": bind, "junk": junk,
        "tape": seed, "user_steps": [], "n_engines": r.choice([2, 2, 3]), "subset_pick": (r.randrange(1 << 20) if r.random() < 0.4 else None),
        "reset_opts": ({"cutoff_dim": opts["cutoff_dim"] + 1} if backend == "fock" and r.random() < 0.3 else None),
    }
    if script["reset_opts"] and r.random() < 0.5:
        script["reset_opts"] = r.choice([{"pure": not opts["pure"]}, {"cutoff_dim": opts["cutoff_dim"] + 1, "pure": not opts["pure"]}])
    script["double_reset"] = r.random() < 0.3
    script["copts"] = {"optimize": False} if random.Random("c09c:%d" % seed).random() < 0.4 else None
    # compile / optimize calls on user programs between runs
    for _ in range(r.randint(0, 3)):
        i = r.randrange(nseg)
        script["user_steps"].append(r.choice([
            {"do": "compile", "prog": i, "compiler": backend, "optimize": r.random() < 0.5},
            {"do": "optimize", "prog": i},
            {"do": "print", "prog": i},
        ]))
    if kind == "crash":
        script["crash"] = {"kfrac": round(r.random(), 4), "when": r.choice(["before", "after"]),
                           "exc": r.choice(["InjectedFault", "KeyboardInterrupt", "MemoryError"]),
                           "pattern": r.choice(["list", "seq"]), "recover": r.choice(["reset", "new_engine", "rerun_same"])}
        if r.random() < 0.35:
            script["crash"]["kfrac"] = round(script["crash"]["kfrac"] * 0.4, 4)  # more crashes inside the first segment
    elif kind == "sweep":
        script["crash"] = {"sweep": True, "exc": r.choice(["InjectedFault", "KeyboardInterrupt", "MemoryError"]),
                           "pattern": r.choice(["list", "seq"]), "recover": r.choice(["reset", "new_engine", "rerun_same"])}
    return script


# ------------------------------------------------------------------------------------------------
def build_pool(script):
    progs = []
    for sp in script["pool"]:
        parent = progs[sp["parent"]] if "parent" in sp else None
        p = build_program(sp, parent=parent)
        for f in sorted(script["bind"]):
            p.params(f)  # every segment knows every bound name (run(args=...) rejects unknown names)
        progs.append(p)
    return progs


def concat_spec(script):
    ops = []
    for sp in script["pool"]:
        ops += copy.deepcopy(sp["ops"])
    return {"n": script["pool"][0]["n"], "ops": ops, "name": "concat"}


def applied_text(eng):
    """what the engine says it has applied since the backend was initialised (Engine.run_progs), rendered here rather than by the library's
    own printing (Command.__str__ cannot print every operation: a Catstate's text parameter makes it raise)"""
    from ..spec import par_repr
    buf = []
    for k_, prog_ in enumerate(eng.run_progs):
        buf.append("Run %d:" % k_)
        for c_ in prog_.circuit or []:
            buf.append("%s%s(%s) | %s" % (type(c_.op).__name__, ".H" if getattr(c_.op, "dagger", False) else "",
                                           json.dumps([par_repr(x_) for x_ in getattr(c_.op, "p", [])]), [r_.ind for r_ in c_.reg]))
    return "\n".join(buf)


class Runner:
    def __init__(self, script, w):
        self.s, self.w = script, w
        self.outcomes = SeededOutcomes(script["tape"], w)
        self.plan = FaultPlan()
        self.env = SimEnv(w, self.outcomes, self.plan)
        # one options dictionary the user keeps and hands to every engine of the session (an input like the programs: never to be altered)
        self.user_opts = copy.deepcopy(script["opts"])
        # ... and one compile-options dictionary handed to every run call (None: the argument is not given)
        self.user_copts = copy.deepcopy(script.get("copts"))

    def engine(self, opts=None):
        if opts is None:
            return self.env.engine(self.s["backend"], self.user_opts, copy=False)
        return self.env.engine(self.s["backend"], opts)

    def run_chain(self, eng, progs, pattern):
        """returns (state_obs, samples_obs of the last call, n_results)"""
        self.outcomes.rewind()
        bind = self.s["bind"] or None
        kw = {"compile_options": self.user_copts} if self.user_copts is not None else {}
        if pattern == "list":
            self.w.step("run_list", n=len(progs))
            res = eng.run(list(progs), args=bind, **kw)
        else:
            res = None
            for p in progs:
                self.w.step("run", prog=p.name)
                res = eng.run(p, args=bind, **kw)
        return state_obs(res.state), samples_obs(res), res


def fps(progs):
    return [program_fp(p) for p in progs]


def check_fps(w, before, progs, after_what, feats=()):
    for i, (b, p) in enumerate(zip(before, progs)):
        d = fp_diff(b, program_fp(p))
        if d:
            w.violation("inputs-untouched", after_what, {"program": i, "diff": d}, features=list(feats))
            return False
    return True


def execute(script, w):
    R = Runner(script, w)
    try:
        _execute(script, w, R)
    finally:
        if R.user_copts != script.get("copts") and not w.violations:
            w.violation("inputs-untouched", "compile_options-dictionary-handed-to-run", {"before": script.get("copts"), "after": {k_: str(R.user_copts[k_]) for k_ in sorted(R.user_copts)}},
                        ["backend=" + script["backend"]])
        if R.user_opts != script["opts"] and not w.violations:
            w.violation("inputs-untouched", "backend_options-dictionary-handed-to-the-engines", {"before": script["opts"], "after": {k_: R.user_opts[k_] for k_ in sorted(R.user_opts)}},
                        ["backend=" + script["backend"]])


def _execute(script, w, R):
    import strawberryfields as sf
    from strawberryfields.program_utils import CircuitError

    backend = script["backend"]
    feats = ["backend=" + backend, "segments=%d" % len(script["pool"])]
    with R.env:
        progs = build_pool(script)
        fp0 = fps(progs)
        hist_key = hashlib.sha256(json.dumps([script["backend"], script["opts"], script["pool"], script["bind"]], sort_keys=True).encode()).hexdigest()[:16]

        # ---- reference: one call with the list, on a fresh engine
        R.plan.enabled = True
        R.plan.disarm()
        R.plan.n = 0
        e1 = R.engine()
        ref_state, ref_samples, _ = R.run_chain(e1, progs, "list")
        ncalls = R.plan.n
        w.states.add(obs_digest(ref_state))
        if not check_fps(w, fp0, progs, "run([..])", feats):
            return
        ref_applied = applied_text(e1)

        crash = script.get("crash")
        if crash is None:
            nonfault_checks(script, w, R, progs, fp0, e1, ref_state, ref_samples, ref_applied, feats, hist_key)
            return

        # ---- fault batches
        if crash.get("sweep"):
            points = [(k, when) for k in range(ncalls) for when in ("before", "after")]
        else:
            points = [(min(ncalls - 1, int(crash["kfrac"] * ncalls)), crash["when"])] if ncalls else []
        # number of backend calls the first segment makes while it executes (a crash at one of them leaves the engine without history)
        R.plan.n = 0
        R.outcomes.rewind()
        R.engine().run(progs[0], args=script["bind"] or None, modes=[])
        n_first = R.plan.n
        ro = script.get("reset_opts")
        fresh_ro = None
        for (k, when) in points:
            R.plan.n = 0
            R.plan.arm(k, when, crash["exc"])
            eng = R.engine()
            w.step("crash_run", k=k, when=when)
            fired = False
            try:
                R.run_chain(eng, progs, crash["pattern"])
            except (InjectedFault, KeyboardInterrupt, MemoryError) as ex:
                fired = R.plan.fired
                if not fired:
                    w.violation("no-unexpected-exception", "run", {"exc": type(ex).__name__, "msg": str(ex)[:200]}, feats)
                    return
            R.plan.disarm()
            if not fired:
                # the call pattern 'seq' makes the same calls; a miss means k was beyond the history
                w.probes["crash_not_reached"] += 1
                continue
            w.nontrivial.add("%s:%d:%s:%s" % (hist_key, k, when, crash["pattern"]))
            # (4a) user programs untouched by the interrupted run
            if not check_fps(w, fp0, progs, "crashed-run", feats + ["crash"]):
                return
            # (4b) bounded liveness: the very next run after the documented recovery completes and equals fresh
            want_state, want_samples, want_applied = ref_state, ref_samples, ref_applied
            if k == 0 and when == "before":
                # the backend never began a circuit: reset() of a never-started engine raises on a fresh engine too, and the
                # engine has no history yet - recovery is simply to run again on the same engine
                w.fault("recover_rerun_unstarted")
                w.probes["crash_before_begin_circuit"] += 1
            elif crash["recover"] == "rerun_same" and k < n_first:
                # the first segment of the session did not run to the end: the engine has no history (a segment is recorded once it has
                # been executed), so the next run begins a new computation - no reset needed
                w.fault("recover_rerun_same_engine")
                if eng.run_progs:
                    w.violation("recovery-equals-fresh", "Engine.run_progs-after-crash-in-first-segment", {"k": k, "when": when, "run_progs": len(eng.run_progs)}, feats + ["crash"])
                    return
            elif crash["recover"] in ("reset", "rerun_same"):
                w.fault("recover_reset")
                try:
                    if ro:
                        # reset with new backend options: like a fresh engine built with the updated options - whether or not the
                        # interrupted run had got as far as entering a segment into the history
                        eng.reset(ro)
                        want = (fresh_ro,) if fresh_ro else ()
                        if not want:
                            ef = R.engine(dict(script["opts"], **ro))
                            fs_, fm_, _ = R.run_chain(ef, progs, "list")
                            fresh_ro = (fs_, fm_, applied_text(ef))
                        want_state, want_samples, want_applied = fresh_ro
                        if k < n_first:
                            w.probes["reset_with_options_on_empty_history"] += 1
                    else:
                        eng.reset()
                except Exception as ex:  # noqa
                    w.violation("reset-equals-fresh", "reset-after-crash", {"exc": type(ex).__name__, "msg": str(ex)[:200]}, feats + ["crash"])
                    return
            else:
                w.fault("recover_new_engine")
                eng = R.engine()
            try:
                st, sm, _ = R.run_chain(eng, progs, "list")
            except Exception as ex:  # noqa
                w.violation("recovery-liveness", "run-after-" + crash["recover"], {"exc": type(ex).__name__, "msg": str(ex)[:300], "k": k, "when": when},
                            feats + ["crash"])
                return
            d = obs_diff(want_state, st, TOL) or samples_diff(want_samples, sm)
            if d:
                w.violation("recovery-equals-fresh", "state-after-" + crash["recover"], {"k": k, "when": when, "diff": d, "reset_opts": ro}, feats + ["crash"])
                return
            if applied_text(eng) != want_applied:
                w.violation("recovery-equals-fresh", "print_applied-after-" + crash["recover"], {"k": k, "when": when}, feats + ["crash"])
                return
            if not check_fps(w, fp0, progs, "run-after-recovery", feats + ["crash"]):
                return


def nonfault_checks(script, w, R, progs, fp0, e1, ref_state, ref_samples, ref_applied, feats, hist_key):
    import strawberryfields as sf

    backend = script["backend"]
    nruns = 1
    # ---- user-side compile / optimize / print calls must not touch the program
    for st in script["user_steps"]:
        p = progs[st["prog"]]
        w.step(st["do"], prog=st["prog"])
        try:
            if st["do"] == "compile":
                c = p.compile(compiler=st["compiler"], optimize=st["optimize"])
                if c is p:
                    w.violation("inputs-untouched", "compile-returns-self", None, feats)
            elif st["do"] == "optimize":
                c = p.optimize()
                if c is p:
                    w.violation("inputs-untouched", "optimize-returns-self", None, feats)
            elif any(type(c_.op).__name__ == "Catstate" for c_ in p.circuit):
                w.probes["print_skipped_unprintable_operation"] += 1  # str() of a Catstate command raises (text parameter) - not this property's business
            else:
                p.print(print_fn=lambda *a: None)
        except Exception as ex:  # noqa
            w.violation("no-unexpected-exception", st["do"], {"exc": type(ex).__name__, "msg": str(ex)[:200]}, feats)
            return
        if not check_fps(w, fp0, progs, st["do"], feats):
            return

    # ---- run option modes=[subset]: the returned state is the reference state reduced to those modes (same samples)
    live_n = ref_state.get("num_modes", 0)
    if live_n >= 2 and script.get("subset_pick") is not None:
        rr = random.Random("c09-subset:%s" % script["subset_pick"])
        sub = sorted(rr.sample(range(live_n), rr.randint(1, live_n - 1)))
        R.outcomes.rewind()
        w.step("run_list_modes_subset", modes=sub)
        try:
            res_sub = R.engine().run(list(progs), args=script["bind"] or None, modes=sub)
        except Exception as ex:  # noqa
            w.violation("no-unexpected-exception", "run(modes=subset)", {"exc": type(ex).__name__, "msg": str(ex)[:200], "modes": sub}, feats)
            return
        nruns += 1
        d = subset_diff(ref_state, state_obs(res_sub.state), sub) or samples_diff(ref_samples, samples_obs(res_sub))
        if d:
            w.violation("compositional", "run(modes=subset) vs full state", {"modes": sub, "diff": d}, feats)
            return
        if not check_fps(w, fp0, progs, "run(modes=subset)", feats):
            return

    # ---- (3) same objects again on a fresh engine, one call per segment
    e2 = R.engine()
    st2, sm2, _ = R.run_chain(e2, progs, "seq")
    nruns += 1
    d = obs_diff(ref_state, st2, TOL) or samples_diff(ref_samples, sm2)
    if d:
        w.violation("compositional", "run(p);run(q) vs run([p,q])", {"diff": d}, feats)
        return
    if not check_fps(w, fp0, progs, "run(p);run(q)", feats):
        return
    if len(e2.run_progs) != len(progs):
        w.violation("compositional", "run_progs-length", {"got": len(e2.run_progs), "want": len(progs)}, feats)
        return
    if applied_text(e2) != ref_applied:
        w.violation("compositional", "print_applied", {"list": ref_applied[:300], "seq": applied_text(e2)[:300]}, feats)
        return

    # ---- (1) one concatenated program (fresh objects from the same spec)
    if len(progs) > 1:
        pc = build_program(concat_spec(script))
        for f in sorted(script["bind"]):
            pc.params(f)
        e3 = R.engine()
        st3, _, _ = R.run_chain(e3, [pc], "list")
        nruns += 1
        d = obs_diff(ref_state, st3, TOL)
        if d:
            w.violation("compositional", "run(p+q) vs run([p,q])", {"diff": d}, feats)
            return

    # ---- several engines advance through the same chain of (shared) program objects in a scheduler-chosen interleaving
    if len(progs) > 1:
        bind = script["bind"] or None
        K = script.get("n_engines", 2)
        engs = [R.engine() for _ in range(K)]
        # every engine has its own outcome tape (different outcomes per engine); its result must equal what the same tape gives on a
        # fresh engine running the chain alone - whatever the other engines did to the shared program objects in between
        tapes = [SeededOutcomes(script["tape"] + 7919 * k_, w) for k_ in range(K)]
        refs = []
        for k_ in range(K):
            R.env.rng.handler = SeededOutcomes(script["tape"] + 7919 * k_, w)
            r_alone = R.engine().run(list(progs), args=bind)
            refs.append((state_obs(r_alone.state), samples_obs(r_alone)))
        progress = [0] * K
        last = [None] * K
        sched = random.Random("c09-interleave:%d" % script["tape"])
        order = []
        while any(pr < len(progs) for pr in progress):
            k = sched.choice([i for i in range(K) if progress[i] < len(progs)])
            order.append(k)
            R.env.rng.handler = tapes[k]
            w.step("run_interleaved", eng=k, seg=progress[k])
            last[k] = engs[k].run(progs[progress[k]], args=bind)
            progress[k] += 1
        R.env.rng.handler = R.outcomes
        nruns += K
        for k in range(K):
            d = obs_diff(refs[k][0], state_obs(last[k].state), TOL) or samples_diff(refs[k][1], samples_obs(last[k]))
            if d:
                w.violation("compositional", "engines-interleaved-on-shared-programs", {"engine": k, "interleaving": order, "diff": d}, feats)
                return
        if not check_fps(w, fp0, progs, "interleaved-engines", feats):
            return

    # ---- (2) reset == fresh, after a junk pre-history on the same engine
    junk = build_program(script["junk"])
    try:
        w.step("junk_run")
        e1.reset()
        e1.run(junk)
    except Exception as ex:  # noqa
        w.violation("no-unexpected-exception", "junk-run", {"exc": type(ex).__name__, "msg": str(ex)[:200]}, feats)
        return
    ro = script.get("reset_opts")
    w.step("reset", opts=ro)
    if ro:
        if script.get("double_reset"):
            e1.reset()
        e1.reset(ro)
        ef = R.engine(dict(script["opts"], **ro))
        fresh_state, fresh_samples, _ = R.run_chain(ef, progs, "list")
        fresh_applied = applied_text(ef)
    else:
        e1.reset()
        fresh_state, fresh_samples, fresh_applied = ref_state, ref_samples, ref_applied
    if e1.run_progs or e1.samples is not None:
        w.violation("reset-equals-fresh", "engine-fields-after-reset", {"run_progs": len(e1.run_progs)}, feats)
        return
    # documented: reset clears the measured values in all registers of the programs run since the last reset (junk program here)
    stale = [k_ for k_, r_ in junk.reg_refs.items() if r_.val is not None]
    if stale:
        w.violation("reset-equals-fresh", "measured-values-cleared-by-reset", {"program": "junk", "modes": stale}, feats)
        return
    st4, sm4, res4 = R.run_chain(e1, progs, "list")
    nruns += 1
    d = obs_diff(fresh_state, st4, TOL) or samples_diff(fresh_samples, sm4)
    if d:
        w.violation("reset-equals-fresh", "state-after-reset", {"diff": d}, feats)
        return
    if applied_text(e1) != fresh_applied:
        w.violation("reset-equals-fresh", "print_applied-after-reset", None, feats)
        return
    if backend == "bosonic":
        e_f = R.engine()
        _, _, resf = R.run_chain(e_f, progs, "list")
        a, b = res4.ancillae_samples, resf.ancillae_samples
        if json.dumps(_anc(a)) != json.dumps(_anc(b)):
            w.violation("reset-equals-fresh", "ancillae_samples-after-reset", {"after_reset": _anc(a), "fresh": _anc(b)}, feats)
            return
    if not check_fps(w, fp0, progs, "run-after-reset", feats):
        return
    e1.reset()
    stale = [(p_.name, k_) for p_ in progs for k_, r_ in p_.reg_refs.items() if r_.val is not None]
    if stale:
        w.violation("reset-equals-fresh", "measured-values-cleared-by-reset", {"still_holding_a_value": stale[:6]}, feats)
        return
    if nruns >= 2:
        w.nontrivial.add(hist_key)


def subset_diff(full, sub, positions, tol=1e-8):
    """compare a state returned for modes=positions with the full state reduced to those positions"""
    if sub["kind"] != full["kind"] or sub.get("num_modes") != len(positions):
        return "kind/num_modes %s/%s vs %s/%d" % (sub["kind"], sub.get("num_modes"), full["kind"], len(positions))
    if sub["names"] != [full["names"][p_] for p_ in positions]:
        return "mode_names %s vs %s" % (sub["names"], [full["names"][p_] for p_ in positions])
    n = full["num_modes"]
    if full["kind"] == "BaseGaussianState":
        idx = list(positions) + [p_ + n for p_ in positions]
        pairs = [("means", full["means"][idx], sub["means"]), ("cov", full["cov"][np.ix_(idx, idx)], sub["cov"])]
    elif full["kind"] == "BaseBosonicState":
        idx = [i_ for p_ in positions for i_ in (2 * p_, 2 * p_ + 1)]
        pairs = [("weights", full["weights"], sub["weights"]), ("means", full["means"][:, idx], sub["means"]), ("covs", full["covs"][:, idx][:, :, idx], sub["covs"])]
    else:
        dm = full["dm"]
        keep = [i_ for p_ in positions for i_ in (2 * p_, 2 * p_ + 1)]
        lab = list(range(2 * n))
        for m_ in range(n):
            if m_ not in positions:
                lab[2 * m_ + 1] = lab[2 * m_]
        red = np.einsum(dm, lab, keep)
        pairs = [("dm", red, sub["dm"])]
    for name, x, y in pairs:
        x, y = np.asarray(x), np.asarray(y)
        if x.shape != y.shape:
            return "%s shape %s vs %s" % (name, x.shape, y.shape)
        if x.size and float(np.max(np.abs(x - y))) > tol * max(1.0, float(np.max(np.abs(x)))):
            return "%s differs by %.3g" % (name, float(np.max(np.abs(x - y))))
    return None


def _anc(a):
    if not a:
        return {}
    return {str(k): np.round(np.asarray(v, dtype=float), 8).tolist() for k, v in a.items()}


def features(script, v):
    f = ["backend=" + script["backend"], "segments=%d" % len(script["pool"])]
    if len(script["pool"]) > 1:
        f.append("multi-segment")
    if script.get("crash"):
        f.append("crash")
    allops = [o for sp in script["pool"] for o in sp["ops"]]
    if any(meas_deps(e) for o in allops for e in o.get("p", [])):
        f.append("measured-parameter")
    if any(free_deps(e) for o in allops for e in o.get("p", [])):
        f.append("free-parameter")
    if any(o["op"] == "MSgate" for o in allops):
        f.append("MSgate")
    return f


def _legal(script):
    n = script["pool"][0]["n"]
    for sp in script["pool"]:
        for o in sp["ops"]:
            if not all(0 <= m < n for m in o["m"]):
                return False
    return True


def shrink(script):
    pool = script["pool"]
    # drop trailing segments
    if len(pool) > 1:
        yield dict(script, pool=pool[:-1])
    # drop ops inside segments
    for i, sp in enumerate(pool):
        for cand in ddmin_list(sp["ops"], 0):
            np_ = pool[:i] + [dict(sp, ops=cand)] + pool[i + 1:]
            yield dict(script, pool=np_)
    if script["user_steps"]:
        for cand in ddmin_list(script["user_steps"], 0):
            yield dict(script, user_steps=cand)
    if script["junk"]["ops"]:
        yield dict(script, junk=dict(script["junk"], ops=[]))
    if script.get("reset_opts"):
        yield dict(script, reset_opts=None)
    if script.get("double_reset"):
        yield dict(script, double_reset=False)
    if script.get("copts") is not None:
        yield dict(script, copts=None)
    # simplify ops: drop dagger, replace symbolic parameter by a number
    for i, sp in enumerate(pool):
        for j, o in enumerate(sp["ops"]):
            if o.get("dag"):
                o2 = {k: v for k, v in o.items() if k != "dag"}
                yield dict(script, pool=pool[:i] + [dict(sp, ops=sp["ops"][:j] + [o2] + sp["ops"][j + 1:])] + pool[i + 1:])
            for pi, e in enumerate(o.get("p", [])):
                if isinstance(e, dict):
                    o2 = dict(o, p=o["p"][:pi] + [0.3] + o["p"][pi + 1:])
                    yield dict(script, pool=pool[:i] + [dict(sp, ops=sp["ops"][:j] + [o2] + sp["ops"][j + 1:])] + pool[i + 1:])
    c = script.get("crash")
    if c and c.get("sweep"):
        for kf in (0.0, 0.25, 0.5, 0.75, 0.99):
            for when in ("before", "after"):
                yield dict(script, crash=dict(c, sweep=False, kfrac=kf, when=when))
    if c and c.get("exc") != "InjectedFault":
        yield dict(script, crash=dict(c, exc="InjectedFault"))
