"""Process environment for every sfsim process.  Import this module FIRST (before numpy).

* BLAS / numba pinned to one thread: removes the only thread pools inside the dependencies
  (a hidden scheduler we would not own) and avoids 16 x N oversubscription.
* strawberryfields must be imported from /repo's working tree (checks rebuild from the current
  sources simply by importing them).
"""
import os
import sys
import warnings

for _k in ("OMP_NUM_THREADS", "OPENBLAS_NUM_THREADS", "MKL_NUM_THREADS", "NUMBA_NUM_THREADS",
           "VECLIB_MAXIMUM_THREADS", "NUMEXPR_NUM_THREADS"):
    os.environ[_k] = "1"

# numba JIT off: the jitted kernels (Fock two-mode kernels, thewalrus gate matrices) then run as the *same Python source*,
# interpreted.  At the sizes simulated here (<= 4 modes, cutoff <= 8) that is as fast as compiled code, and it removes
# ~1 s of compilation per (kernel, array rank, memory layout) signature from every forked child.  SFSIM_JIT=1 re-enables it.
if os.environ.get("SFSIM_JIT", "0") != "1":
    os.environ["NUMBA_DISABLE_JIT"] = "1"

REPO = os.environ.get("SFSIM_REPO", "/repo")
VERIF = os.path.dirname(os.path.dirname(os.path.abspath(__file__)))

# the hooks guard (no source hook exists at the moment; the name is reserved, see MANIFEST.hooks)
os.environ.setdefault("SF_VERIF_SIM", "1")

if REPO not in sys.path:
    sys.path.insert(0, REPO)

warnings.filterwarnings("ignore")


def import_sf():
    import strawberryfields as sf  # noqa

    here = os.path.realpath(sf.__file__)
    if not here.startswith(os.path.realpath(REPO) + os.sep):
        raise SystemExit("sfsim: strawberryfields imported from %s, not from %s" % (here, REPO))
    return sf
