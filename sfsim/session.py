"""Sessions: engines on seam-wrapped backends, seeded outcome tapes, observables of states.

`SimEnv` is a context manager that, for one simulated run,
  * replaces the entries of strawberryfields.backends.local_backends by BackendSeam subclasses
    (so `sf.Engine("gaussian")` - the ordinary user path - yields an engine on a wrapped backend),
  * installs the RandomSeam with an outcome handler,
  * stubs the two thewalrus samplers bound in the Gaussian backend module.
"""
import contextlib
import math

import numpy as np

from .seams import RandomSeam, FaultPlan, wrap_backend, InjectedFault
from .world import adigest, HarnessError


class SeededOutcomes:
    """Outcome handler: every draw is made from the *declared* distribution with a private PRNG, through
    transforms that are continuous in the arguments (Cholesky / inverse CDF), so that two executions that hand
    over the same distributions up to rounding receive the same outcomes up to rounding.
    `rewind()` restarts the tape (same outcomes again)."""

    def __init__(self, seed, world=None, round_to=None):
        self.seed = seed
        self.world = world
        self.rewind()
        self.override = None  # optional callable(name, args, kwargs) -> value or None

    def rewind(self):
        self.rs = np.random.RandomState(self.seed % (2 ** 32))
        self.n = 0

    def _u(self, size=None):
        return self.rs.random_sample(size)

    def _z(self, size=None):
        return self.rs.standard_normal(size)

    def __call__(self, name, args, kwargs, native):
        self.n += 1
        if self.override is not None:
            out = self.override(name, args, kwargs)
            if out is not None:
                return out
        fn = getattr(self, "h_" + name, None)
        if fn is None:
            raise HarnessError("RandomSeam: no outcome rule for numpy.random.%s" % name)
        out = fn(*args, **kwargs)
        if self.world is not None:
            self.world.log("rng", name=name, n=self.n, out=adigest(np.asarray(out, dtype=complex if np.iscomplexobj(out) else float)))
        return out

    # -- numpy.random API subset the library uses
    def h_multivariate_normal(self, mean, cov, size=None, **kw):
        mean = np.real_if_close(np.asarray(mean))
        cov = np.real_if_close(np.asarray(cov))
        d = len(mean)
        covs = (np.real(cov) + np.real(cov).T) / 2
        try:
            L = np.linalg.cholesky(covs + 1e-14 * np.eye(d))
        except np.linalg.LinAlgError:
            wv, V = np.linalg.eigh(covs)
            L = V * np.sqrt(np.clip(wv, 0, None))
        if size is None:
            return np.real(mean) + L @ self._z(d)
        n = int(np.prod(size))
        z = self._z((n, d))
        out = np.real(mean)[None, :] + z @ L.T
        return out.reshape((size if isinstance(size, tuple) else (size,)) + (d,))

    def h_normal(self, loc=0.0, scale=1.0, size=None):
        return loc + scale * self._z(size)

    def h_random(self, size=None):
        return self._u(size)

    h_random_sample = h_random

    def h_uniform(self, low=0.0, high=1.0, size=None):
        return low + (np.asarray(high) - low) * self._u(size)

    def h_choice(self, a, size=None, replace=True, p=None):
        arr = np.arange(a) if isinstance(a, (int, np.integer)) else np.asarray(a)
        n = len(arr)
        if p is None:
            cdf = np.arange(1, n + 1) / n
        else:
            cdf = np.cumsum(np.real(np.asarray(p, dtype=complex)).astype(float))
            cdf = cdf / cdf[-1]
        u = self._u(size)
        idx = np.minimum(np.searchsorted(cdf, u, side="right"), n - 1)
        return arr[idx]

    def h_multinomial(self, n, pvals, size=None):
        pv = np.asarray(pvals, dtype=float)
        cdf = np.cumsum(pv)
        cdf = cdf / cdf[-1]
        out = np.zeros(len(pv), dtype=int)
        for _ in range(int(n)):
            out[min(int(np.searchsorted(cdf, self._u(), side="right")), len(pv) - 1)] += 1
        return out

    def h_poisson(self, lam=1.0, size=None):
        lam_b = np.broadcast_to(np.asarray(lam, dtype=float), size if size is not None else np.shape(lam))
        u = self._u(lam_b.shape)
        out = np.zeros(lam_b.shape, dtype=int)
        it = np.nditer(lam_b, flags=["multi_index"])
        for l in it:
            l = float(l)
            k, pk = 0, math.exp(-l)
            c = pk
            while c < u[it.multi_index] and k < 200:
                k += 1
                pk *= l / k
                c += pk
            out[it.multi_index] = k
        return out if out.shape else int(out)

    def h_shuffle(self, x):
        n = len(x)
        for i in range(n - 1, 0, -1):
            j = int(self._u() * (i + 1))
            x[i], x[j] = x[j], x[i]

    def h_randint(self, low, high=None, size=None, dtype=int):
        if high is None:
            low, high = 0, low
        return (low + np.floor(self._u(size) * (high - low))).astype(int) if size is not None else int(low + math.floor(self._u() * (high - low)))


def walrus_stubs(outcomes, world):
    """deterministic stand-ins for thewalrus' samplers (their own RNG use is outside our seam): small photon numbers
    drawn from the private PRNG; C06 validates the *arguments* separately."""

    def hafnian_sample_state(cov, samples, mean=None, **kw):
        world.seams["walrus:hafnian_sample_state"] += 1
        n = len(cov) // 2
        u = outcomes._u((samples, n))
        return np.floor(u * 3).astype(int)

    def torontonian_sample_state(cov=None, samples=1, mu=None, **kw):
        world.seams["walrus:torontonian_sample_state"] += 1
        n = len(cov) // 2
        u = outcomes._u((samples, n))
        return (u < 0.5).astype(int)

    return hafnian_sample_state, torontonian_sample_state


class SimEnv:
    def __init__(self, world, outcomes=None, plan=None, on_call=None, native_rng=False, stub_walrus=True):
        self.w = world
        self.outcomes = outcomes if outcomes is not None else SeededOutcomes(world.seed, world)
        self.plan = plan if plan is not None else FaultPlan()
        self.on_call = on_call
        self.native_rng = native_rng
        self.stub_walrus = stub_walrus
        self._stack = None

    def __enter__(self):
        import strawberryfields.backends as sfb
        import strawberryfields.backends.gaussianbackend.backend as gb

        self._stack = contextlib.ExitStack()
        self._saved_lb = dict(sfb.local_backends)
        self.real = dict(sfb.local_backends)
        for name, cls in list(sfb.local_backends.items()):
            sfb.local_backends[name] = wrap_backend(cls, self.w, self.plan, self._dispatch)
        if self.native_rng:
            from .seams import native_handler
            self.rng = RandomSeam(self.w, native_handler, native_seed=self.w.seed)
        else:
            self.rng = RandomSeam(self.w, self.outcomes)
        self._stack.enter_context(self.rng)
        self._saved_walrus = (gb.hafnian_sample_state, gb.torontonian_sample_state)
        if self.stub_walrus and not self.native_rng:
            gb.hafnian_sample_state, gb.torontonian_sample_state = walrus_stubs(self.outcomes, self.w)
        return self

    def _dispatch(self, phase, be, name, a, k, out):
        if self.on_call:
            self.on_call(phase, be, name, a, k, out)

    def __exit__(self, *exc):
        import strawberryfields.backends as sfb
        import strawberryfields.backends.gaussianbackend.backend as gb

        gb.hafnian_sample_state, gb.torontonian_sample_state = self._saved_walrus
        sfb.local_backends.clear()
        sfb.local_backends.update(self._saved_lb)
        self._stack.close()
        return False

    def engine(self, backend, opts=None, copy=True):
        """copy=False hands the caller's dictionary object itself to the engine (as a user who keeps one options dictionary would)"""
        import strawberryfields as sf

        return sf.Engine(backend, backend_options=dict(opts or {}) if copy else opts)


# ------------------------------------------------------------------------------------------------
# observables
# ------------------------------------------------------------------------------------------------
def state_obs(st):
    """backend-independent container of what a returned state object says (arrays)"""
    if st is None:
        return {"kind": "none"}
    cls = type(st).__name__
    out = {"kind": cls, "num_modes": st.num_modes, "names": [st.mode_names[i] for i in range(st.num_modes)]}
    if cls == "BaseBosonicState":
        out["weights"] = np.asarray(st.weights())
        out["means"] = np.asarray(st.means())
        out["covs"] = np.asarray(st.covs())
    elif cls == "BaseGaussianState":
        out["means"] = np.asarray(st.means())
        out["cov"] = np.asarray(st.cov())
    elif cls == "BaseFockState":
        out["dm"] = np.asarray(st.dm())
        out["pure"] = bool(st.is_pure)
    else:
        raise HarnessError("unknown state class " + cls)
    return out


def obs_diff(a, b, tol=1e-8):
    """None if equal within tol, else a short description of the first difference"""
    if a["kind"] != b["kind"]:
        return "kind %s vs %s" % (a["kind"], b["kind"])
    if a["kind"] == "none":
        return None
    if a["num_modes"] != b["num_modes"]:
        return "num_modes %d vs %d" % (a["num_modes"], b["num_modes"])
    if a["names"] != b["names"]:
        return "mode_names %s vs %s" % (a["names"], b["names"])
    for k in ("weights", "means", "covs", "cov", "dm"):
        if k in a:
            x, y = np.asarray(a[k]), np.asarray(b[k])
            if x.shape != y.shape:
                return "%s shape %s vs %s" % (k, x.shape, y.shape)
            if x.size:
                d = float(np.max(np.abs(x - y)))
                scale = max(1.0, float(np.max(np.abs(x))))
                if not d <= tol * scale:
                    return "%s differs by %.3g" % (k, d)
    return None


def obs_digest(o):
    parts = [o["kind"], str(o.get("num_modes")), ",".join(o.get("names", []))]
    for k in ("weights", "means", "covs", "cov", "dm"):
        if k in o:
            parts.append(adigest(o[k], 6))
    return "|".join(parts)


def samples_obs(res):
    s = res.samples
    sd = res.samples_dict or {}
    return {"samples": np.asarray(s).tolist() if s is not None else None,
            "dict": {int(k): [np.asarray(x).tolist() for x in v] for k, v in sd.items()}}


def samples_diff(a, b, tol=1e-7):
    def arr_close(x, y):
        x, y = np.asarray(x, dtype=complex), np.asarray(y, dtype=complex)
        return x.shape == y.shape and (x.size == 0 or float(np.max(np.abs(x - y))) <= tol * max(1.0, float(np.max(np.abs(x)))))

    if (a["samples"] is None) != (b["samples"] is None):
        return "samples None-ness"
    if a["samples"] is not None and not arr_close(a["samples"], b["samples"]):
        return "samples %s vs %s" % (str(a["samples"])[:80], str(b["samples"])[:80])
    if sorted(a["dict"]) != sorted(b["dict"]):
        return "samples_dict keys %s vs %s" % (sorted(a["dict"]), sorted(b["dict"]))
    for k in a["dict"]:
        if len(a["dict"][k]) != len(b["dict"][k]) or not all(arr_close(x, y) for x, y in zip(a["dict"][k], b["dict"][k])):
            return "samples_dict[%d] %s vs %s" % (k, str(a["dict"][k])[:60], str(b["dict"][k])[:60])
    return None
