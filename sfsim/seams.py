"""Seams: the places where the simulator takes over a decision the library leaves to someone else.

RandomSeam   numpy.random.* module functions (+ the two thewalrus samplers bound in the Gaussian backend)
BackendSeam  every public backend API call (event + fault point), on a subclass of the real backend
SortSeam     networkx topological_sort / lexicographical_topological_sort (C04 only)

All of them patch module attributes / subclass from outside; /repo needs no hook.
"""
import contextlib

import numpy as np
import numpy.random as npr

from .world import HarnessError, Violation

RANDOM_NAMES = ("choice", "multivariate_normal", "normal", "multinomial", "random", "poisson", "shuffle",
                "uniform", "rand", "randn", "randint", "random_sample", "permutation", "binomial")


class RandomSeam:
    """`handler(name, args, kwargs, native)` decides each call.  If the handler returns
    `RandomSeam.NATIVE` the real function is used (seeded global RandomState).  Unhandled names raise
    (an unknown source of randomness must never go unnoticed)."""

    NATIVE = object()

    def __init__(self, world, handler, native_seed=None, allow_native=()):
        self.world, self.handler = world, handler
        self.native_seed = native_seed
        self.allow_native = set(allow_native)
        self._saved = {}
        self.calls = 0
        self.max_calls = 200000

    def __enter__(self):
        if self.native_seed is not None:
            npr.seed(self.native_seed % (2 ** 32))
        for name in RANDOM_NAMES:
            native = getattr(npr, name)
            self._saved[name] = native
            setattr(npr, name, self._make(name, native))
        return self

    def __exit__(self, *exc):
        for name, fn in self._saved.items():
            setattr(npr, name, fn)
        self._saved = {}
        return False

    def _make(self, name, native):
        def patched(*args, **kwargs):
            self.calls += 1
            if self.calls > self.max_calls:
                raise Violation("liveness", "rng-calls", "more than %d RNG calls in one run" % self.max_calls)
            out = self.handler(name, args, kwargs, native)
            if out is RandomSeam.NATIVE:
                self.world.seams["rng:" + name + ":native"] += 1
                return native(*args, **kwargs)
            self.world.seams["rng:" + name] += 1
            return out

        patched.__name__ = "sim_" + name
        return patched


def native_handler(name, args, kwargs, native):
    return RandomSeam.NATIVE


# ------------------------------------------------------------------------------------------------
class InjectedFault(RuntimeError):
    """the simulator's crash (distinct class so that it is never confused with a library error)"""


FAULT_EXC = {"InjectedFault": InjectedFault, "KeyboardInterrupt": KeyboardInterrupt, "MemoryError": MemoryError}

# backend methods that are not "operations" (no fault point, no event)
_PASSIVE = {"supports", "get_modes", "is_vacuum", "state", "get_cutoff_dim", "run_prog", "init_circuit"}


class FaultPlan:
    """crash before/after the k-th backend API call (global count over the run)"""

    def __init__(self):
        self.n = 0
        self.k = None
        self.when = "before"
        self.exc = "InjectedFault"
        self.fired = False
        self.enabled = True

    def arm(self, k, when="before", exc="InjectedFault"):
        self.k, self.when, self.exc, self.fired = k, when, exc, False

    def disarm(self):
        self.k = None


def wrap_backend(cls, world, plan=None, on_call=None, passive=_PASSIVE, name_prefix="Sim"):
    """subclass of the real backend whose public API methods are events and fault points.
    on_call(phase, backend, name, args, kwargs, result) with phase in {"pre","post"} may observe
    (oracles) and may raise."""
    ns = {}

    def mk(name, real):
        def f(self, *a, **k):
            if getattr(self, "_sfsim_depth", 0) > 0:  # nested API call from inside the backend: not a user-visible boundary
                return real(self, *a, **k)
            i = None
            if plan is not None and plan.enabled:
                i = plan.n
                plan.n += 1
            world.seams["backend:" + name] += 1
            world.log("be", name=name, i=i)
            if plan is not None and plan.enabled and plan.k == i and plan.when == "before":
                plan.fired = True
                world.fault("crash_before", call=name, i=i, exc=plan.exc)
                raise FAULT_EXC[plan.exc]("injected before %s (#%d)" % (name, i))
            if on_call:
                on_call("pre", self, name, a, k, None)
            self._sfsim_depth = 1
            try:
                out = real(self, *a, **k)
            finally:
                self._sfsim_depth = 0
            if on_call:
                on_call("post", self, name, a, k, out)
            if plan is not None and plan.enabled and plan.k == i and plan.when == "after":
                plan.fired = True
                world.fault("crash_after", call=name, i=i, exc=plan.exc)
                raise FAULT_EXC[plan.exc]("injected after %s (#%d)" % (name, i))
            return out

        f.__name__ = name
        return f

    for name in dir(cls):
        if name.startswith("_") or name in passive:
            continue
        real = getattr(cls, name)
        if not callable(real) or isinstance(real, (staticmethod, classmethod, type)):
            continue
        if isinstance(cls.__dict__.get(name, None), (staticmethod, classmethod, property)):
            continue
        ns[name] = mk(name, real)
    return type(name_prefix + cls.__name__, (cls,), ns)


# ------------------------------------------------------------------------------------------------
class SortSeam:
    """replaces networkx's two topological sorters (looked up through nx.algorithms.dag at call time by
    strawberryfields.program_utils) by a generator whose every "next ready node" is chosen by `pick`.

    pick(ready_candidates: list[node], world) -> index.  For the lexicographic variant only candidates of
    minimal key are offered (that is the contract; ties are what Command.__lt__ leaves open)."""

    def __init__(self, world):
        import networkx as nx

        self.nx = nx
        self.world = world
        self.native = True
        self.pick = None
        self.choices = 0
        self.branching = 0
        self._saved = None

    def __enter__(self):
        dag = self.nx.algorithms.dag
        self._saved = (dag.topological_sort, dag.lexicographical_topological_sort)
        o_topo, o_lex = self._saved
        seam = self

        def sim(G, key=None):
            indeg = {n: d for n, d in G.in_degree()}
            ready = [n for n in G.nodes if indeg[n] == 0]
            while ready:
                if key is None:
                    cand = list(range(len(ready)))
                else:
                    ks = [key(n) for n in ready]
                    m = min(ks)
                    cand = [i for i, k in enumerate(ks) if k == m]
                seam.choices += 1
                if len(cand) > 1:
                    seam.branching += 1
                j = seam.pick([ready[i] for i in cand])
                n = ready.pop(cand[j])
                yield n
                for _, c in G.out_edges(n):
                    indeg[c] -= 1
                    if indeg[c] == 0:
                        ready.append(c)

        def topo(G):
            seam.world.seams["sort:topological"] += 1
            return o_topo(G) if seam.native else sim(G)

        def lex(G, key=None):
            seam.world.seams["sort:lexicographical"] += 1
            return o_lex(G, key=key) if seam.native else sim(G, key)

        dag.topological_sort = topo
        dag.lexicographical_topological_sort = lex
        # networkx also re-exports the names at top level; program_utils uses nx.algorithms.dag.*,
        # patch the aliases too so that a refactoring to nx.topological_sort stays under the seam
        self._saved_top = (self.nx.topological_sort, self.nx.lexicographical_topological_sort)
        self.nx.topological_sort = topo
        self.nx.lexicographical_topological_sort = lex
        return self

    def __exit__(self, *exc):
        dag = self.nx.algorithms.dag
        dag.topological_sort, dag.lexicographical_topological_sort = self._saved
        self.nx.topological_sort, self.nx.lexicographical_topological_sort = self._saved_top
        return False
